#!/opt/veriftools/pyvenv/bin/python3
"""Regenerates MANIFEST.json from props.PROPS (claimed checks) and the not-applicable list below."""
import json, subprocess, sys, os
sys.path.insert(0, '/verif')
import props
NA = {
 'C18': 'serialisation round trips run through serde-generated code, serde_json parsing and string formatting over symbolic text: outside what the MIR encoding models (strings are concrete, formatting is opaque); with concrete strings nothing is left for the solver to decide (DESIGN.md section 5)',
 'C19': 'metric log files: file-system I/O, directory listing, regex file-name matching and date formatting are outside the encoding; crash points are prefixes of an OS-level byte stream, which a solver over concrete text would only enumerate (DESIGN.md section 5)',
}
PENDING = 'check not built yet (work in progress, see DESIGN.md)'
allp = [json.loads(l) for l in open('/verif/properties.jsonl')]
hooks = subprocess.check_output(['git', '-C', '/repo', 'log', '--format=%h %s']).decode().splitlines()
hook_commits = [l.split()[0] for l in hooks if 'verif hooks' in l]
claimed = [p['id'] for p in allp if p['id'] in props.PROPS]
m = {
 'version': 1,
 'setup_cmd': './setup.sh',
 'hooks': {'guard': 'verif_hooks (cargo feature of sentinel-core)',
           'enable': 'the harness crate /verif/harness depends on sentinel-core with features=["verif_hooks"]; mirdump and the replay binaries are built from it',
           'baseline_off_cmd': 'cd /repo && cargo test --workspace --no-fail-fast --offline',
           'source_commits': hook_commits, 'add_only': True},
 'engines': [{'name': 'mirsym', 'path': '/verif/mirsym', 'serves_properties': claimed,
              'kind_free_text': 'bounded symbolic execution of the monomorphised MIR of /repo (dumped on every run by /verif/mirdump through rustc_public) with z3 deciding every branch and assertion; cvc5 re-decides sampled queries; counterexamples are replayed natively through /verif/harness'}],
 'checks': [], 'not_applicable': [],
 'notes': 'exit 0 = held on everything explored, 1 = natively reproduced violation (VIOLATION line), 2 = inconclusive (never reported as pass). Known findings: /verif/known_findings.json. See DESIGN.md.',
}
for p in allp:
    pid = p['id']
    if pid in props.PROPS:
        spec = props.PROPS[pid]
        m['checks'].append({
            'property_id': pid, 'quick_cmd': './check %s --tier quick' % pid, 'thorough_cmd': './check %s --tier thorough' % pid,
            'evidence_file': '/verif/evidence/%s.json' % pid, 'replay_cmd_template': 'sh -c "$(python3 -c \'import json,sys;print(json.load(open(sys.argv[1]))[\\"replay_cmd\\"])\' {path})"',
            'engine': 'mirsym',
            'level_claimed': {'category': 'model_checking',
                              'text': 'bounded symbolic model checking of the real code: every path of every enumerated scenario shape through the monomorphised MIR is decided by z3, '
                                      'so the property holds for all symbolic inputs within the stated bounds (%s); outside the bounds nothing is claimed' % spec.get('bounds', '')[:600],
                              'design_ref': 'DESIGN.md section 4 (%s)' % pid},
            'level_note': 'trusted base: the mirsym interpreter and its API-level models of std/lru/enum_map (checked on every run by a differential self-test against the native binary), z3 (sampled queries re-decided by cvc5), rustc MIR as dumped; '
                          + '; '.join(spec.get('assumptions', []))[:700],
            'technique': 'bounded symbolic execution of rustc MIR, SMT-decided (z3, cvc5 cross-check), native replay of counterexamples',
        })
    else:
        m['not_applicable'].append({'property_id': pid, 'reason': NA.get(pid, PENDING)})
json.dump(m, open('/verif/MANIFEST.json', 'w'), indent=1)
import jsonschema
jsonschema.validate(m, json.load(open('/root/.vp/MANIFEST.schema.json')))
print('MANIFEST ok: claimed', claimed, 'n/a', [x['property_id'] for x in m['not_applicable']])
