//! Exerciser for the API-level models of the standard library in mirsym: each group uses a family of std
//! functions on run-chosen inputs and reports results through `vrt::observe`; the differential self-test
//! (native binary vs interpreter in concrete mode) must agree on every observation. Not tied to a property:
//! it validates (and documents) the trusted base of the encoding.
use crate::{vrt, Shape};
use std::collections::{HashMap, HashSet};
use std::sync::atomic::{AtomicBool, AtomicI64, AtomicU32, AtomicU64, AtomicUsize, Ordering};
use std::sync::{Arc, Mutex, RwLock, Weak};

fn inputs(n: usize) -> Vec<i64> {
    let mut v = Vec::new();
    for _ in 0..n {
        v.push(vrt::any_i64("x", -20, 20));
    }
    v
}

fn obs_vec(tag: &'static str, v: &[i64]) {
    vrt::observe(tag, v.len() as i64);
    for x in v {
        vrt::observe(tag, *x);
    }
}

fn vecs() {
    let v = inputs(6);
    let mut a = v.clone();
    a.retain(|x| *x % 2 == 0);
    obs_vec("retain", &a);
    let mut b = v.clone();
    b.insert(2, 99);
    b.truncate(5);
    let r = b.swap_remove(1);
    vrt::observe("swap_remove", r);
    obs_vec("insert-truncate", &b);
    vrt::observe("contains", v.contains(&3) as i64);
    vrt::observe("first", *v.first().unwrap());
    vrt::observe("last", *v.last().unwrap());
    let mut c = v.clone();
    c.sort();
    obs_vec("sort", &c);
    c.dedup();
    obs_vec("dedup", &c);
    vrt::observe("binary_search", match c.binary_search(&v[0]) {
        Ok(i) => i as i64,
        Err(i) => -(i as i64) - 1,
    });
    let mut d = v.clone();
    d.sort_by(|x, y| y.cmp(x));
    obs_vec("sort_by", &d);
    d.sort_by_key(|x| x.abs());
    vrt::observe("sort_by_key-first-abs", d[0].abs());
    d.reverse();
    vrt::observe("reverse-first-abs", d[0].abs());
    let mut e = v.clone();
    let dr: Vec<i64> = e.drain(1..3).collect();
    obs_vec("drain", &dr);
    obs_vec("after-drain", &e);
    e.extend(dr.iter().copied());
    e.extend_from_slice(&[7, 8]);
    obs_vec("extend", &e);
    let (l, r) = v.split_at(2);
    obs_vec("split_l", l);
    obs_vec("split_r", r);
    vrt::observe("get", v.get(9).copied().unwrap_or(-1));
    vrt::observe("get3", v.get(3).copied().unwrap_or(-1));
    let mut f = v.clone();
    if let Some(x) = f.get_mut(0) {
        *x += 100;
    }
    f.swap(0, 5);
    vrt::observe("swap", f[5]);
    let mut g = vec![1i64, 2, 3];
    g.append(&mut f);
    vrt::observe("append-len", g.len() as i64);
    vrt::observe("f-empty", f.is_empty() as i64);
    g.clear();
    vrt::observe("clear", g.len() as i64);
    let w: Vec<i64> = v.windows(2).map(|p| p[1] - p[0]).collect();
    obs_vec("windows", &w);
    let ch: Vec<i64> = v.chunks(4).map(|p| p.len() as i64).collect();
    obs_vec("chunks", &ch);
    let mut h = v.clone();
    h.resize(8, -5);
    vrt::observe("resize", h[7]);
    let p = h.pop();
    vrt::observe("pop", p.unwrap());
    let it: Vec<i64> = v.iter().rev().skip(1).step_by(2).cloned().collect();
    obs_vec("rev-skip-step", &it);
    vrt::observe("starts_with", v.starts_with(&[v[0], v[1]]) as i64);
    let cat = [vec![1i64, 2], vec![3]].concat();
    obs_vec("concat", &cat);
    vrt::observe("iter-eq", (v == v.clone()) as i64);
    let rp: Vec<i64> = std::iter::repeat(4).take(3).collect();
    obs_vec("repeat", &rp);
    vrt::observe("rposition", v.iter().rposition(|x| *x > 0).map(|i| i as i64).unwrap_or(-1));
    vrt::observe("last-it", v.iter().last().copied().unwrap_or(-1));
    vrt::observe("nth", v.iter().nth(2).copied().unwrap_or(-1));
    vrt::observe("count", v.iter().count() as i64);
    let mut s2 = 0;
    v.iter().for_each(|x| s2 += *x);
    vrt::observe("for_each", s2);
    vrt::observe("fold", v.iter().fold(0, |a, x| a * 3 + *x));
}

fn iters() {
    let v = inputs(6);
    vrt::observe("find", v.iter().find(|x| **x > 3).copied().unwrap_or(-99));
    vrt::observe("position", v.iter().position(|x| *x < 0).map(|i| i as i64).unwrap_or(-1));
    vrt::observe("any", v.iter().any(|x| *x == 0) as i64);
    vrt::observe("all", v.iter().all(|x| *x > -15) as i64);
    vrt::observe("find_map", v.iter().find_map(|x| if *x % 5 == 0 { Some(*x * 2) } else { None }).unwrap_or(-99));
    vrt::observe("sum", v.iter().sum::<i64>());
    vrt::observe("product", v.iter().take(3).product::<i64>());
    vrt::observe("max", *v.iter().max().unwrap());
    vrt::observe("min", *v.iter().min().unwrap());
    vrt::observe("max_by_key", *v.iter().max_by_key(|x| (**x - 3).abs()).unwrap());
    vrt::observe("min_by", *v.iter().min_by(|a, b| (**a % 7).cmp(&(**b % 7))).unwrap());
    let z: Vec<i64> = v.iter().zip(v.iter().skip(1)).map(|(a, b)| a * b).collect();
    obs_vec("zip", &z);
    let ch: Vec<i64> = v.iter().take(2).chain(v.iter().skip(4)).copied().collect();
    obs_vec("chain", &ch);
    let fl: Vec<i64> = v.iter().filter(|x| **x > 0).map(|x| x + 1).collect();
    obs_vec("filter-map", &fl);
    let fm: Vec<i64> = v.iter().filter_map(|x| if *x > 0 { Some(*x) } else { None }).collect();
    obs_vec("filter_map", &fm);
    let en: i64 = v.iter().enumerate().map(|(i, x)| i as i64 * x).sum();
    vrt::observe("enumerate", en);
    let tw: Vec<i64> = v.iter().take_while(|x| **x != 0).copied().collect();
    obs_vec("take_while", &tw);
    let sw: Vec<i64> = v.iter().skip_while(|x| **x < 5).copied().collect();
    obs_vec("skip_while", &sw);
    let fm2: Vec<i64> = v.iter().flat_map(|x| vec![*x, -*x]).take(5).collect();
    obs_vec("flat_map", &fm2);
    let mut pk = v.iter().peekable();
    vrt::observe("peek", **pk.peek().unwrap());
    vrt::observe("next", *pk.next().unwrap());
    let (ev, od): (Vec<i64>, Vec<i64>) = v.iter().partition(|x| **x % 2 == 0);
    obs_vec("part-ev", &ev);
    obs_vec("part-od", &od);
    let r: i64 = (0..v.len()).map(|i| v[i]).sum();
    vrt::observe("range-map", r);
    let r2: i64 = (1..=4u32).rev().map(|i| i as i64).fold(0, |a, x| a * 10 + x);
    vrt::observe("range-incl-rev", r2);
    vrt::observe("last", v.iter().copied().last().unwrap());
    let sc: Vec<i64> = v.iter().scan(0, |st, x| {
        *st += *x;
        Some(*st)
    }).collect();
    obs_vec("scan", &sc);
    let ins: Vec<i64> = v.iter().inspect(|_| {}).copied().collect();
    vrt::observe("inspect", ins.len() as i64);
    vrt::observe("eq", v.iter().eq(ins.iter()) as i64);
    let o: Option<Vec<i64>> = v.iter().map(|x| if *x > -100 { Some(*x) } else { None }).collect();
    vrt::observe("collect-option", o.map(|w| w.len() as i64).unwrap_or(-1));
    let rr: Result<Vec<i64>, i64> = v.iter().map(|x| if *x != 7 { Ok(*x) } else { Err(7) }).collect();
    vrt::observe("collect-result", rr.map(|w| w.len() as i64).unwrap_or(-7));
    let once: Vec<i64> = std::iter::once(5).chain(std::iter::empty()).collect();
    obs_vec("once", &once);
    let into: Vec<i64> = v.clone().into_iter().map(|x| x * 2).collect();
    obs_vec("into_iter", &into);
    let mut it = v.iter();
    vrt::observe("next_back", *it.next_back().unwrap());
    vrt::observe("len", it.len() as i64);
    vrt::observe("try_fold", v.iter().try_fold(0i64, |a, x| a.checked_add(*x)).unwrap_or(-1));
    vrt::observe("into-find", v.clone().into_iter().find(|x| *x > 2).unwrap_or(-99));
    vrt::observe("into-any", v.clone().into_iter().any(|x| x == 0) as i64);
    vrt::observe("into-filter-count", v.clone().into_iter().filter(|x| *x > 0).count() as i64);
    vrt::observe("into-position", v.clone().into_iter().position(|x| x < 0).map(|i| i as i64).unwrap_or(-1));
    vrt::observe("slice-range-to", v[..2].iter().sum::<i64>());
    vrt::observe("slice-range-from", v[4..].iter().sum::<i64>());
    vrt::observe("slice-range", v[1..=3].len() as i64);
    vrt::observe("into-try-result", v.clone().into_iter().try_fold(0i64, |a, x| if x != 13 { Ok(a + x) } else { Err(a) }).unwrap_or_else(|e| e));
}

fn maps() {
    let v = inputs(6);
    let mut m: HashMap<i64, i64> = HashMap::new();
    for (i, x) in v.iter().enumerate() {
        *m.entry(*x % 4).or_insert(0) += i as i64;
    }
    vrt::observe("len", m.len() as i64);
    let mut keys: Vec<i64> = m.keys().copied().collect();
    keys.sort();
    obs_vec("keys", &keys);
    let mut vals: Vec<i64> = m.values().copied().collect();
    vals.sort();
    obs_vec("values", &vals);
    m.entry(100).or_default();
    m.entry(100).and_modify(|e| *e += 5).or_insert(1);
    vrt::observe("and_modify", m[&100]);
    *m.entry(101).or_insert_with(|| 40) += 2;
    vrt::observe("or_insert_with", m[&101]);
    vrt::observe("contains", m.contains_key(&0) as i64);
    vrt::observe("get", m.get(&1).copied().unwrap_or(-1));
    if let Some(e) = m.get_mut(&100) {
        *e *= 2;
    }
    vrt::observe("get_mut", m[&100]);
    vrt::observe("remove", m.remove(&100).unwrap_or(-1));
    vrt::observe("remove-none", m.remove(&100).unwrap_or(-1));
    vrt::observe("insert-old", m.insert(101, 1).unwrap_or(-1));
    m.retain(|k, _| *k != 101);
    vrt::observe("retain", m.len() as i64);
    for (_, val) in m.iter_mut() {
        *val += 1;
    }
    for val in m.values_mut() {
        *val += 1;
    }
    vrt::observe("sum", m.values().sum::<i64>());
    let m2: HashMap<i64, i64> = m.iter().map(|(k, v)| (*k + 1, *v)).collect();
    vrt::observe("collect", m2.len() as i64);
    let mut m3 = m2.clone();
    m3.extend(m.iter().map(|(k, v)| (*k, *v)));
    vrt::observe("extend", m3.len() as i64);
    vrt::observe("get_key_value", m3.get_key_value(&1).map(|(k, _)| *k).unwrap_or(-1));
    vrt::observe("remove_entry", m3.remove_entry(&1).map(|(k, _)| k).unwrap_or(-1));
    let mut tot = 0;
    for (k, val) in m3.drain() {
        tot += k + val;
    }
    vrt::observe("drain", tot);
    vrt::observe("empty", m3.is_empty() as i64);
    let mut tot2 = 0;
    for (k, val) in m2 {
        tot2 += k * val;
    }
    vrt::observe("into_iter", tot2);
    let mut sm: HashMap<String, Vec<i64>> = HashMap::new();
    sm.entry("a".to_string()).or_default().push(1);
    sm.entry("a".to_string()).or_default().push(2);
    sm.entry("b".into()).or_insert_with(Vec::new).push(3);
    vrt::observe("str-key", sm["a"].len() as i64);
    vrt::observe("str-get", sm.get("b").map(|x| x.len() as i64).unwrap_or(-1));
    vrt::observe("eq", (sm == sm.clone()) as i64);
    m.clear();
    vrt::observe("clear", m.len() as i64);
    let wc: HashMap<i64, i64> = HashMap::with_capacity(8);
    vrt::observe("with_capacity", wc.len() as i64);
}

fn sets() {
    let v = inputs(6);
    let a: HashSet<i64> = v.iter().take(4).copied().collect();
    let b: HashSet<i64> = v.iter().skip(2).copied().collect();
    let mut u: Vec<i64> = a.union(&b).copied().collect();
    u.sort();
    obs_vec("union", &u);
    let mut i: Vec<i64> = a.intersection(&b).copied().collect();
    i.sort();
    obs_vec("intersection", &i);
    let mut d: Vec<i64> = a.difference(&b).copied().collect();
    d.sort();
    obs_vec("difference", &d);
    let mut sd: Vec<i64> = a.symmetric_difference(&b).copied().collect();
    sd.sort();
    obs_vec("symdiff", &sd);
    vrt::observe("subset", i.iter().copied().collect::<HashSet<i64>>().is_subset(&a) as i64);
    vrt::observe("superset", a.is_superset(&b) as i64);
    vrt::observe("disjoint", a.is_disjoint(&b) as i64);
    let mut c = a.clone();
    vrt::observe("insert-new", c.insert(1000) as i64);
    vrt::observe("insert-old", c.insert(1000) as i64);
    vrt::observe("remove", c.remove(&1000) as i64);
    vrt::observe("remove-none", c.remove(&1000) as i64);
    vrt::observe("contains", c.contains(&v[0]) as i64);
    vrt::observe("get", c.get(&v[0]).copied().unwrap_or(-99));
    vrt::observe("take", c.take(&v[0]).unwrap_or(-99));
    vrt::observe("replace", c.replace(v[1]).unwrap_or(-99));
    c.retain(|x| *x > 0);
    vrt::observe("retain", c.len() as i64);
    c.extend(vec![1, 2, 3]);
    vrt::observe("extend", c.len() as i64);
    vrt::observe("eq", (a == a.clone()) as i64);
    let mut t = 0;
    for x in c.drain() {
        t += x;
    }
    vrt::observe("drain", t);
    let mut t2 = 0;
    for x in a {
        t2 += x;
    }
    vrt::observe("into_iter", t2);
}

fn strings() {
    let n = vrt::any_i64("n", 0, 3) as usize;
    let names = ["alpha", "beta-1", "", "Γδ"];
    let s = String::from(names[n]);
    vrt::observe("len", s.len() as i64);
    vrt::observe("empty", s.is_empty() as i64);
    let mut t = s.clone();
    t.push_str("-x");
    t.push('y');
    vrt::observe("push", t.len() as i64);
    vrt::observe("eq", (s == names[n]) as i64);
    vrt::observe("ne", (t != s) as i64);
    vrt::observe("starts_with", t.starts_with("al") as i64);
    vrt::observe("ends_with", t.ends_with("xy") as i64);
    vrt::observe("contains", t.contains("-1") as i64);
    vrt::observe("cmp", match s.as_str().cmp("b") {
        std::cmp::Ordering::Less => -1,
        std::cmp::Ordering::Equal => 0,
        std::cmp::Ordering::Greater => 1,
    });
    vrt::observe("chars", s.chars().count() as i64);
    vrt::observe("bytes", s.bytes().map(|b| b as i64).sum::<i64>());
    vrt::observe("find", t.find('-').map(|i| i as i64).unwrap_or(-1));
    let parts: Vec<&str> = t.split('-').collect();
    vrt::observe("split", parts.len() as i64);
    vrt::observe("trim", "  ab ".trim().len() as i64);
    vrt::observe("upper", (s.to_uppercase() == s) as i64);
    vrt::observe("lower", (s.to_lowercase() == s) as i64);
    vrt::observe("parse", "42".parse::<i64>().unwrap_or(-1));
    vrt::observe("parse-err", "4x".parse::<i64>().unwrap_or(-1));
    vrt::observe("to_string", 17i64.to_string().len() as i64);
    let o: &str = &t[t.len() - 2..];
    vrt::observe("slice", o.len() as i64);
    vrt::observe("replace", t.replace("-", "+").len() as i64);
    let j = vec!["a".to_string(), "bc".to_string()].join(",");
    vrt::observe("join", j.len() as i64);
    vrt::observe("as_bytes", s.as_bytes().first().map(|b| *b as i64).unwrap_or(-1));
    vrt::observe("clear", {
        t.clear();
        t.len() as i64
    });
    let cow: std::borrow::Cow<str> = std::borrow::Cow::Borrowed("q");
    vrt::observe("cow", cow.into_owned().len() as i64);
    let mut hs: HashSet<String> = HashSet::new();
    hs.insert(s.clone());
    vrt::observe("set-str", hs.contains(names[n]) as i64);
}

fn syncs() {
    let x = vrt::any_i64("x", -20, 20);
    let a = AtomicI64::new(x);
    vrt::observe("fetch_add", a.fetch_add(3, Ordering::SeqCst));
    vrt::observe("fetch_sub", a.fetch_sub(1, Ordering::SeqCst));
    vrt::observe("fetch_max", a.fetch_max(5, Ordering::SeqCst));
    vrt::observe("fetch_min", a.fetch_min(-2, Ordering::SeqCst));
    vrt::observe("swap", a.swap(9, Ordering::SeqCst));
    vrt::observe("cas-ok", a.compare_exchange(9, 10, Ordering::SeqCst, Ordering::SeqCst).is_ok() as i64);
    vrt::observe("cas-fail", a.compare_exchange(9, 11, Ordering::SeqCst, Ordering::SeqCst).unwrap_or_else(|v| v));
    vrt::observe("cas-weak", a.compare_exchange_weak(10, 12, Ordering::SeqCst, Ordering::Relaxed).is_ok() as i64);
    vrt::observe("fetch_update", a.fetch_update(Ordering::SeqCst, Ordering::SeqCst, |v| if v < 100 { Some(v * 2) } else { None }).unwrap_or(-1));
    vrt::observe("load", a.load(Ordering::SeqCst));
    let u = AtomicU64::new(x.unsigned_abs());
    vrt::observe("u-and", u.fetch_and(6, Ordering::SeqCst) as i64);
    vrt::observe("u-or", u.fetch_or(8, Ordering::SeqCst) as i64);
    vrt::observe("u-xor", u.fetch_xor(3, Ordering::SeqCst) as i64);
    vrt::observe("u-load", u.load(Ordering::Relaxed) as i64);
    let b = AtomicBool::new(x > 0);
    vrt::observe("b-swap", b.swap(true, Ordering::SeqCst) as i64);
    vrt::observe("b-cas", b.compare_exchange(true, false, Ordering::SeqCst, Ordering::SeqCst).is_ok() as i64);
    vrt::observe("b-fetch_or", b.fetch_or(true, Ordering::SeqCst) as i64);
    vrt::observe("b-fetch_and", b.fetch_and(false, Ordering::SeqCst) as i64);
    b.store(true, Ordering::SeqCst);
    vrt::observe("b-load", b.load(Ordering::SeqCst) as i64);
    let us = AtomicUsize::new(3);
    us.store(4, Ordering::SeqCst);
    vrt::observe("usize", us.fetch_add(1, Ordering::SeqCst) as i64);
    let u32a = AtomicU32::new(7);
    vrt::observe("u32", u32a.fetch_sub(2, Ordering::SeqCst) as i64);
    vrt::observe("into_inner", u32a.into_inner() as i64);
    let mut am = AtomicI64::new(1);
    *am.get_mut() += 4;
    vrt::observe("get_mut", am.load(Ordering::SeqCst));

    let m = Mutex::new(vec![x]);
    m.lock().unwrap().push(2);
    vrt::observe("try_lock", m.try_lock().map(|g| g.len() as i64).unwrap_or(-1));
    {
        let g = m.lock().unwrap();
        vrt::observe("try_lock-held", m.try_lock().is_err() as i64);
        drop(g);
    }
    vrt::observe("poisoned", m.is_poisoned() as i64);
    vrt::observe("into_inner", m.into_inner().unwrap().len() as i64);
    let rw = RwLock::new(5i64);
    {
        let r1 = rw.read().unwrap();
        let r2 = rw.read().unwrap();
        vrt::observe("two-readers", *r1 + *r2);
        vrt::observe("try_write-blocked", rw.try_write().is_err() as i64);
    }
    *rw.write().unwrap() += 1;
    vrt::observe("try_read", rw.try_read().map(|g| *g).unwrap_or(-1));
    let mut rw2 = rw;
    *rw2.get_mut().unwrap() += 1;
    vrt::observe("rw-into_inner", rw2.into_inner().unwrap());

    let arc = Arc::new(Mutex::new(1i64));
    let arc2 = arc.clone();
    vrt::observe("strong", Arc::strong_count(&arc) as i64);
    vrt::observe("ptr_eq", Arc::ptr_eq(&arc, &arc2) as i64);
    let w: Weak<Mutex<i64>> = Arc::downgrade(&arc);
    vrt::observe("weak", Arc::weak_count(&arc) as i64);
    vrt::observe("upgrade", w.upgrade().is_some() as i64);
    drop(arc2);
    vrt::observe("try_unwrap", Arc::try_unwrap(arc).map(|m| m.into_inner().unwrap()).unwrap_or(-1));
    vrt::observe("upgrade-dead", w.upgrade().is_none() as i64);
    let mut ai = Arc::new(5i64);
    *Arc::make_mut(&mut ai) += 1;
    vrt::observe("make_mut", *ai);
    vrt::observe("get_mut", Arc::get_mut(&mut ai).map(|p| *p).unwrap_or(-1));
    let wn: Weak<i64> = Weak::new();
    vrt::observe("weak-new", wn.upgrade().is_none() as i64);
    let cell = std::cell::Cell::new(3i64);
    cell.set(cell.get() + 1);
    vrt::observe("cell", cell.replace(0));
    let rc = std::cell::RefCell::new(vec![1i64]);
    rc.borrow_mut().push(2);
    vrt::observe("refcell", rc.borrow().len() as i64);
    vrt::observe("try_borrow_mut", {
        let _b = rc.borrow();
        rc.try_borrow_mut().is_err() as i64
    });
    let mut p = 1i64;
    let mut q = 2i64;
    std::mem::swap(&mut p, &mut q);
    vrt::observe("mem-swap", p);
    vrt::observe("mem-replace", std::mem::replace(&mut p, 7));
    let mut ov = Some(3i64);
    vrt::observe("take", ov.take().unwrap());
    vrt::observe("mem-take", std::mem::take(&mut q));
    let once = std::sync::Once::new();
    let mut cnt = 0;
    once.call_once(|| cnt += 1);
    once.call_once(|| cnt += 1);
    vrt::observe("once", cnt);
    vrt::observe("once-done", once.is_completed() as i64);
    let bx: Box<dyn Fn(i64) -> i64> = Box::new(move |z| z + x);
    vrt::observe("box-fn", bx(1));
    let rcx = std::rc::Rc::new(4i64);
    vrt::observe("rc", std::rc::Rc::strong_count(&rcx.clone()) as i64);
}

fn nums() {
    let x = vrt::any_i64("x", -20, 20);
    let y = vrt::any_i64("y", -20, 20);
    let ux = x.unsigned_abs() as u32;
    let uy = y.unsigned_abs() as u32;
    vrt::observe("sat_sub", ux.saturating_sub(uy) as i64);
    vrt::observe("sat_add", (u32::MAX - 3).saturating_add(ux) as i64);
    vrt::observe("sat_mul", (ux as u8).saturating_mul(20) as i64);
    vrt::observe("checked_sub", ux.checked_sub(uy).map(|v| v as i64).unwrap_or(-1));
    vrt::observe("checked_add", (i64::MAX - 5).checked_add(x).unwrap_or(-1));
    vrt::observe("checked_mul", x.checked_mul(y).unwrap_or(-1));
    vrt::observe("checked_div", x.checked_div(y).unwrap_or(-99));
    vrt::observe("checked_rem", x.checked_rem(y).unwrap_or(-99));
    vrt::observe("wrapping_add", (250u8).wrapping_add(ux as u8) as i64);
    vrt::observe("wrapping_sub", (3u8).wrapping_sub(ux as u8) as i64);
    vrt::observe("wrapping_mul", (ux as u8).wrapping_mul(37) as i64);
    vrt::observe("wrapping_neg", (x as i8).wrapping_neg() as i64);
    let (ov, fl) = (ux as u8).overflowing_add(240);
    vrt::observe("overflowing", ov as i64 + fl as i64 * 1000);
    vrt::observe("abs", x.abs());
    vrt::observe("abs_diff", x.abs_diff(y) as i64);
    vrt::observe("signum", x.signum());
    vrt::observe("pow", (x % 5).pow(3));
    vrt::observe("div_euclid", if y != 0 { x.div_euclid(y) } else { 0 });
    vrt::observe("rem_euclid", if y != 0 { x.rem_euclid(y) } else { 0 });
    vrt::observe("min", x.min(y));
    vrt::observe("max", std::cmp::max(x, y));
    vrt::observe("clamp", x.clamp(-3, 4));
    vrt::observe("leading_zeros", ux.leading_zeros() as i64);
    vrt::observe("trailing_zeros", ux.trailing_zeros() as i64);
    vrt::observe("count_ones", ux.count_ones() as i64);
    vrt::observe("is_power_of_two", ux.is_power_of_two() as i64);
    vrt::observe("next_power_of_two", ux.next_power_of_two() as i64);
    vrt::observe("rotate", (ux as u8).rotate_left(3) as i64);
    vrt::observe("swap_bytes", (ux as u16).swap_bytes() as i64);
    vrt::observe("shl", (ux << 3) as i64);
    vrt::observe("shr", (x >> 2) as i64);
    vrt::observe("and-or-xor", ((ux & uy) | (ux ^ 5)) as i64);
    vrt::observe("not", (!ux) as i64);
    vrt::observe("try_from-ok", u8::try_from(ux).map(|v| v as i64).unwrap_or(-1));
    vrt::observe("try_from-err", u8::try_from(x).map(|v| v as i64).unwrap_or(-1));
    vrt::observe("try_into", { let r: Result<u32, _> = x.try_into(); r.map(|v| v as i64).unwrap_or(-1) });
    vrt::observe("as-u8", (x as u8) as i64);
    vrt::observe("as-i8", ((x * 13) as i8) as i64);
    vrt::observe("from", i64::from(ux));
    vrt::observe("cmp", x.cmp(&y) as i64);
    vrt::observe("partial_cmp", x.partial_cmp(&y).map(|o| o as i64).unwrap_or(9));
    vrt::observe("ord-reverse", x.cmp(&y).reverse() as i64);
    vrt::observe("ord-then", x.cmp(&y).then(y.cmp(&x)) as i64);
    vrt::observe("tuple-cmp", ((x, y) < (y, x)) as i64);
    vrt::observe("isqrt-like", ((ux as f64).sqrt() as u32) as i64);
    vrt::observe("u128", ((ux as u128 * 1_000_000_007u128) % 97) as i64);
    vrt::observe("i128", ((x as i128) * (y as i128)) as i64);
    vrt::observe("bool-then", (x > 0).then(|| 5).unwrap_or(6));
    vrt::observe("bool-then_some", (x > 0).then_some(5).unwrap_or(6));
}

fn floats() {
    let x = vrt::any_i64("x", -20, 20);
    let y = vrt::any_i64("y", 1, 20);
    let fx = x as f64 / 4.0;
    let fy = y as f64 / 8.0;
    vrt::observe_f64("div", fx / fy);
    vrt::observe_f64("mul", fx * fy);
    vrt::observe_f64("floor", (fx / fy).floor());
    vrt::observe_f64("ceil", (fx / fy).ceil());
    vrt::observe_f64("round", (fx / fy).round());
    vrt::observe_f64("trunc", (fx / fy).trunc());
    vrt::observe_f64("fract", (fx / 3.0).fract());
    vrt::observe_f64("abs", fx.abs());
    vrt::observe_f64("min", fx.min(fy));
    vrt::observe_f64("max", fx.max(fy));
    vrt::observe_f64("clamp", fx.clamp(-1.0, 1.5));
    vrt::observe_f64("sqrt", fy.sqrt());
    vrt::observe_f64("powi", fy.powi(3));
    vrt::observe_f64("powf", fy.powf(0.5));
    vrt::observe_f64("mul_add", fx.mul_add(fy, 1.0));
    vrt::observe_f64("signum", fx.signum());
    vrt::observe_f64("recip", fy.recip());
    vrt::observe_f64("rem", fx % fy);
    vrt::observe_f64("neg", -fx);
    vrt::observe("is_nan", (fx / 0.0 * 0.0).is_nan() as i64);
    vrt::observe("is_finite", (fx / 0.0).is_finite() as i64);
    vrt::observe("is_infinite", (1.0 / (fx - fx)).is_infinite() as i64);
    vrt::observe("lt", (fx < fy) as i64);
    vrt::observe("partial_cmp", fx.partial_cmp(&fy).map(|o| o as i64).unwrap_or(9));
    vrt::observe("total_cmp", fx.total_cmp(&fy) as i64);
    vrt::observe("as-i64", (fx * 3.7) as i64);
    vrt::observe("as-u32", (fx * 3.7) as u32 as i64);
    vrt::observe("as-u8-sat", (fy * 100.0) as u8 as i64);
    vrt::observe("nan-as", (f64::NAN) as i64);
    vrt::observe("to_bits", (fy.to_bits() >> 52) as i64);
    vrt::observe_f64("from_bits", f64::from_bits(fy.to_bits() + 1));
    vrt::observe_f64("f32", (fx as f32 * 1.1) as f64);
    vrt::observe_f64("exp-ln", (fy.ln()).exp());
    vrt::observe_f64("epsilon", f64::EPSILON);
    vrt::observe_f64("max-const", f64::MAX);
    vrt::observe("eq", (fx == fx) as i64);
    vrt::observe_f64("sum", [fx, fy, 0.1].iter().sum::<f64>());
    vrt::observe_f64("fold-max", [fx, fy].iter().cloned().fold(f64::MIN, f64::max));
}

fn options() {
    let x = vrt::any_i64("x", -20, 20);
    let o = if x > 0 { Some(x) } else { None };
    let r: Result<i64, i64> = if x % 2 == 0 { Ok(x) } else { Err(-x) };
    vrt::observe("map", o.map(|v| v + 1).unwrap_or(0));
    vrt::observe("and_then", o.and_then(|v| if v > 5 { Some(v) } else { None }).unwrap_or(0));
    vrt::observe("or", o.or(Some(9)).unwrap());
    vrt::observe("or_else", o.or_else(|| Some(8)).unwrap());
    vrt::observe("unwrap_or_else", o.unwrap_or_else(|| 7));
    vrt::observe("unwrap_or_default", o.unwrap_or_default());
    vrt::observe("filter", o.filter(|v| *v % 2 == 0).unwrap_or(-1));
    vrt::observe("is_some_and", o.is_some_and(|v| v > 3) as i64);
    vrt::observe("map_or", o.map_or(-1, |v| v * 2));
    vrt::observe("map_or_else", o.map_or_else(|| -2, |v| v * 3));
    vrt::observe("ok_or", o.ok_or(5).unwrap_or_else(|e| e));
    vrt::observe("xor", o.xor(None).unwrap_or(-1));
    vrt::observe("zip", o.zip(Some(2)).map(|(a, b)| a * b).unwrap_or(-1));
    let mut o2 = o;
    vrt::observe("get_or_insert", *o2.get_or_insert(4));
    vrt::observe("insert", *o2.insert(6));
    vrt::observe("replace", o2.replace(1).unwrap());
    vrt::observe("as_ref", o.as_ref().map(|v| *v).unwrap_or(-1));
    if let Some(v) = o2.as_mut() {
        *v += 1;
    }
    vrt::observe("as_mut", o2.unwrap());
    vrt::observe("iter", o.iter().count() as i64);
    vrt::observe("flatten", Some(o).flatten().unwrap_or(-1));
    vrt::observe("r-map", r.map(|v| v + 1).unwrap_or(0));
    vrt::observe("r-map_err", r.map_err(|e| e + 1).unwrap_or_else(|e| e));
    vrt::observe("r-and_then", r.and_then(|v| if v > 0 { Ok(v) } else { Err(0) }).unwrap_or(-5));
    vrt::observe("r-ok", r.ok().unwrap_or(-1));
    vrt::observe("r-err", r.err().unwrap_or(-1));
    vrt::observe("r-is_ok", r.is_ok() as i64);
    vrt::observe("r-unwrap_or_default", r.unwrap_or_default());
    vrt::observe("r-or_else", r.or_else(|e| if e > 0 { Ok::<i64, i64>(e) } else { Err(e) }).unwrap_or(-9));
    vrt::observe("r-iter", r.iter().count() as i64);
    vrt::observe("r-is_err_and", r.is_err_and(|e| e > 0) as i64);
    vrt::observe("transpose", Some(r).transpose().map(|v| v.unwrap_or(-1)).unwrap_or(-2));
    let q = (|| -> Option<i64> {
        let a = o?;
        Some(a + 1)
    })();
    vrt::observe("question", q.unwrap_or(-1));
    let q2 = (|| -> Result<i64, i64> {
        let a = r?;
        Ok(a + 1)
    })();
    vrt::observe("question-r", q2.unwrap_or_else(|e| e));
    let bo: Box<i64> = Box::new(x);
    vrt::observe("box", *bo + 1);
    let t = (x, o);
    vrt::observe("tuple", t.0 + t.1.unwrap_or(0));
    let arr = [x; 3];
    vrt::observe("array", arr.iter().sum::<i64>());
    vrt::observe("matches", matches!(o, Some(v) if v > 2) as i64);
    let d = std::time::Duration::from_millis(x.unsigned_abs() * 100);
    vrt::observe("duration", d.as_secs() as i64 * 1000 + d.subsec_millis() as i64);
    vrt::observe("duration-nanos", d.as_nanos() as i64);
}

/// shape: p0 = group (0 vec, 1 iterators, 2 maps, 3 sets, 4 strings, 5 sync, 6 integers, 7 floats, 8 option/result)
pub fn stdx_api(s: Shape) {
    match s.p[0] {
        0 => vecs(),
        1 => iters(),
        2 => maps(),
        3 => sets(),
        4 => strings(),
        5 => syncs(),
        6 => nums(),
        7 => floats(),
        _ => options(),
    }
    vrt::cover("done");
}
