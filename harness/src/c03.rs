//! C03 — circuit breakers follow the Closed/Open/Half-Open state machine.
use crate::util::T0;
use crate::{vrt, Shape};
use sentinel_core::api::EntryBuilder;
use sentinel_core::base::{EntryStrongPtr, ResourceType, Snapshot, TrafficType};
use sentinel_core::circuitbreaker as cb;
use sentinel_core::circuitbreaker::{BreakerStrategy, State, StateChangeListener};
use sentinel_core::verif::clock;
use sentinel_core::Error;
use std::sync::{Arc, Mutex};

/// records the round trip like the resource statistic slot does, without touching any statistic window
struct RtSlot {}
impl sentinel_core::base::BaseSlot for RtSlot {
    fn order(&self) -> u32 {
        1000
    }
}
impl sentinel_core::base::StatSlot for RtSlot {
    fn on_completed(&self, ctx: &mut sentinel_core::base::EntryContext) {
        let rt = sentinel_core::utils::curr_time_millis() - ctx.start_time();
        ctx.set_round_trip(rt);
    }
}

fn st_code(s: State) -> u8 {
    match s {
        State::Closed => 0,
        State::HalfOpen => 1,
        State::Open => 2,
    }
}

struct Lsn {
    log: Mutex<Vec<(u8, u8, String)>>, // (new state, prev, rule id)
}
impl StateChangeListener for Lsn {
    fn on_transform_to_closed(&self, prev: State, rule: Arc<cb::Rule>) {
        self.log.lock().unwrap().push((0, st_code(prev), rule.id.clone()));
    }
    fn on_transform_to_open(&self, prev: State, rule: Arc<cb::Rule>, _s: Option<Arc<Snapshot>>) {
        self.log.lock().unwrap().push((2, st_code(prev), rule.id.clone()));
    }
    fn on_transform_to_half_open(&self, prev: State, rule: Arc<cb::Rule>) {
        self.log.lock().unwrap().push((1, st_code(prev), rule.id.clone()));
    }
    fn on_circuit_breaker_drop(&self, _prev: State, _rule: Arc<cb::Rule>) {}
}

struct Ob {
    // oracle state of one breaker
    id: String,
    strategy: u8,
    state: u8,
    next_retry: u64,
    retry: u64,
    interval: u64,
    blen: u64,
    min_req: u64,
    thr: f64,
    max_rt: u64,
    ev_t: Vec<u64>,
    ev_target: Vec<bool>,
}

const RATIOS: [f64; 7] = [0.0, 0.25, 1.0 / 3.0, 0.5, 2.0 / 3.0, 0.75, 1.0];

/// shape: p0 = strategy (0 slow, 1 error ratio, 2 error count), p1 = breakers (1..2), p2 = window buckets (1..2),
/// p3 = depth, p4 = retry class (0: shorter than window, 1: longer), p5 >= 1: second event scripted (first entry fails), p5 = 2: additionally count threshold 1 and min_request_amount <= 1,
/// p6 = 1: gaps of at most 600 ms (still crossing a bucket boundary and the short retry timeout)
pub fn c03_breaker(s: Shape) {
    let strat = s.p[0] as u8;
    let nb = s.p[1] as usize;
    let buckets = s.p[2] as u32;
    let depth = s.p[3] as usize;
    let res = String::from("c03");
    let interval: u32 = 1000;
    let retry0: u32 = if s.p[4] == 0 { 400 } else { 1500 };
    let lsn = Arc::new(Lsn { log: Mutex::new(Vec::new()) });
    cb::clear_state_change_listeners();
    cb::register_state_change_listeners(crate::util::vec1(lsn.clone() as Arc<dyn StateChangeListener>));
    let mut t = vrt::any_u64("t0", T0 + 9000, T0 + 9499);
    clock::arm(t * 1_000_000);
    let mut rules = Vec::new();
    let mut obs: Vec<Ob> = Vec::new();
    for b in 0..nb {
        let min_req = vrt::any_u64("minreq", 0, if s.p[5] == 2 { 1 } else { 3 });
        let (thr, max_rt) = match strat {
            2 => (vrt::any_u64("thrcount", if s.p[5] == 2 { 1 } else { 0 }, if s.p[5] == 2 { 1 } else { 4 }) as f64, 0u64),
            _ => {
                // a symbolic choice among the seven thresholds, kept as one term (no fork)
                let i = vrt::any_usize("thridx", 0, 6);
                let mut v = RATIOS[6];
                let mut j = 6;
                while j > 0 {
                    j -= 1;
                    v = vrt::ite_f64(i == j, RATIOS[j], v);
                }
                (v, 100u64)
            }
        };
        let retry = if b == 0 { retry0 } else { retry0 * 2 };
        let strategy = match strat {
            0 => BreakerStrategy::SlowRequestRatio,
            1 => BreakerStrategy::ErrorRatio,
            _ => BreakerStrategy::ErrorCount,
        };
        rules.push(Arc::new(cb::Rule {
            id: crate::util::name("b", b as usize),
            resource: res.clone(),
            strategy,
            retry_timeout_ms: retry,
            min_request_amount: min_req,
            stat_interval_ms: interval,
            stat_sliding_window_bucket_count: buckets,
            max_allowed_rt_ms: max_rt,
            threshold: thr,
        }));
        obs.push(Ob {
            id: crate::util::name("b", b as usize),
            strategy: strat,
            state: 0,
            next_retry: 0,
            retry: retry as u64,
            interval: interval as u64,
            blen: (interval / buckets) as u64,
            min_req,
            thr,
            max_rt,
            ev_t: Vec::new(),
            ev_target: Vec::new(),
        });
    }
    cb::load_rules(rules);
    // order in which the slot consults the breakers
    let brs = cb::get_breakers_of_resource(&res);
    vrt::check(brs.len() == nb, "C03:breakers-built");
    let mut order: Vec<usize> = Vec::new();
    for br in brs.iter() {
        for b in 0..nb {
            if br.bound_rule().id == obs[b].id {
                order.push(b);
            }
        }
    }
    // p7 == 1: the complete global chain; otherwise the breaker slots plus a slot that only records the round trip
    let chain = if s.p[7] == 1 {
        sentinel_core::api::global_slot_chain()
    } else {
        use sentinel_core::verif::slots;
        sentinel_core::verif::slot_chain_of(slots::BREAKER | slots::STAT_BREAKER, Some(Arc::new(RtSlot {})))
    };
    let mut want_log: Vec<(u8, u8, usize)> = Vec::new();
    let mut open: Vec<(EntryStrongPtr, u64)> = Vec::new();
    for step in 0..depth {
        let gap = vrt::any_u64("gap", 0, if s.p[6] == 1 { 600 } else if retry0 > 1000 { retry0 as u64 + 100 } else { 1100 });
        t += gap;
        clock::set_ns(t * 1_000_000);
        // p5 = 1: the second event is scripted (the first entry completes with an error), the others stay symbolic
        let op = if open.is_empty() {
            0
        } else if s.p[5] >= 1 && step == 1 {
            2
        } else {
            vrt::any_u32("op", 0, 2)
        };
        if op == 0 {
            // ---- enter
            let mut pass = true;
            let mut probes: Vec<usize> = Vec::new();
            for &b in order.iter() {
                let o = &mut obs[b];
                if o.state == 0 {
                    continue;
                }
                if o.state == 2 && t >= o.next_retry {
                    o.state = 1;
                    want_log.push((1, 2, b));
                    probes.push(b);
                    continue;
                }
                pass = false;
                break;
            }
            if !pass {
                for &b in probes.iter() {
                    if obs[b].state == 1 {
                        obs[b].state = 2;
                        want_log.push((2, 1, b));
                        vrt::cover("probe-rejected");
                    }
                }
            } else if !probes.is_empty() {
                vrt::cover("probe-admitted");
            }
            vrt::observe("want-pass", pass as i64);
            let got = EntryBuilder::new(res.clone())
                .with_resource_type(ResourceType::Common)
                .with_traffic_type(TrafficType::Outbound)
                .with_slot_chain(chain.clone())
                .build();
            match got {
                Ok(e) => {
                    vrt::check(pass, "C03:admitted-while-not-allowed");
                    open.push((e, t));
                }
                Err(_) => {
                    vrt::cover("rejected");
                    vrt::check(!pass, "C03:rejected-while-allowed");
                }
            }
        } else {
            // ---- complete the oldest open entry, ok (op 1) or with an error (op 2)
            let (e, ts) = open.remove(0);
            let err = op == 2;
            let rt = t - ts;
            if err {
                e.set_err(Error::msg("boom"));
            }
            e.exit();
            for &b in order.iter() {
                let o = &mut obs[b];
                let target = if o.strategy == 0 { rt > o.max_rt } else { err };
                o.ev_t.push(t);
                o.ev_target.push(target);
                let cur = t - t % o.blen;
                let (mut total, mut targ) = (0u64, 0u64);
                for i in 0..o.ev_t.len() {
                    let bs = o.ev_t[i] - o.ev_t[i] % o.blen;
                    if bs + o.interval > cur && bs <= cur {
                        total += 1;
                        if o.ev_target[i] {
                            targ += 1;
                        }
                    }
                }
                if o.state == 1 {
                    if !target {
                        o.state = 0;
                        want_log.push((0, 1, b));
                        o.ev_t.clear();
                        o.ev_target.clear();
                        vrt::cover("closed-after-probe");
                    } else {
                        o.state = 2;
                        o.next_retry = t + o.retry;
                        want_log.push((2, 1, b));
                        vrt::cover("reopened-after-probe");
                    }
                } else if o.state == 0 {
                    let met = if o.strategy == 2 { targ >= o.thr as u64 } else { targ as f64 / total as f64 >= o.thr };
                    if total >= o.min_req && met {
                        o.state = 2;
                        o.next_retry = t + o.retry;
                        want_log.push((2, 0, b));
                        vrt::cover("opened");
                    }
                }
            }
        }
        // ---- compare
        for (k, br) in brs.iter().enumerate() {
            let b = order[k];
            vrt::check(st_code(br.current_state()) == obs[b].state, "C03:state");
        }
        for b in 0..nb {
            // observations in rule order (independent of the hash order of the rule set)
            vrt::observe("want-state", obs[b].state as i64);
            vrt::observe("want-retry", obs[b].next_retry as i64);
        }
        let l = lsn.log.lock().unwrap();
        vrt::check(l.len() == want_log.len(), "C03:listener-count");
        if l.len() == want_log.len() {
            for i in 0..l.len() {
                let (ns, ps, ref id) = l[i];
                let (wn, wp, wb) = want_log[i];
                vrt::check(ns == wn && ps == wp && *id == obs[wb].id, "C03:listener-event");
            }
        }
    }
    for (e, _) in open {
        e.exit();
    }
}
