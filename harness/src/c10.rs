//! C10 — rule managers hold and enforce exactly the valid rules last given, incl. appends.
use crate::{vrt, Shape};
use sentinel_core::base::SentinelRule;
use sentinel_core::{circuitbreaker as cb, flow, hotspot, isolation, system};
use std::sync::Arc;

fn r1() -> String {
    "c10-r1".into()
}
fn r2() -> String {
    "c10-r2".into()
}

/// One rule family behind a common interface. Pool: 0 = A1 (valid, r1), 1 = A2 (valid, r1), 2 = B1 (valid, r2),
/// 3 = X (invalid, r1), 4 = A1' (equal to A1 under rule equality, different id)
pub trait Fam {
    type R: SentinelRule + PartialEq;
    fn pool() -> Vec<Arc<Self::R>>;
    fn res_of(r: &Self::R) -> String;
    fn load(v: Vec<Arc<Self::R>>) -> Option<bool>;
    fn load_res(res: &String, v: Vec<Arc<Self::R>>) -> Option<Result<bool, ()>>;
    fn append(r: Arc<Self::R>) -> bool;
    fn clear();
    fn clear_res(res: &String) -> bool;
    fn get() -> Vec<Arc<Self::R>>;
    fn get_res(res: &String) -> Option<Vec<Arc<Self::R>>>;
    /// the rules bound to the objects that decide entries on `res` (controllers / breakers), where the manager
    /// keeps them apart from the rules it reports
    fn enforced(_res: &String) -> Option<Vec<Arc<Self::R>>> {
        None
    }
}

pub struct FlowF;
impl Fam for FlowF {
    type R = flow::Rule;
    fn pool() -> Vec<Arc<flow::Rule>> {
        let mk = |id: &str, res: String, thr: f64| {
            Arc::new(flow::Rule { id: id.into(), resource: res, threshold: thr, ..Default::default() })
        };
        let mut v = Vec::new();
        v.push(mk("A1", r1(), 0.0));
        v.push(mk("A2", r1(), 100.0));
        v.push(mk("B1", r2(), 0.0));
        v.push(mk("X", r1(), -1.0));
        v.push(mk("A1x", r1(), 0.0));
        v
    }
    fn res_of(r: &flow::Rule) -> String {
        r.resource.clone()
    }
    fn load(v: Vec<Arc<flow::Rule>>) -> Option<bool> {
        Some(flow::load_rules(v))
    }
    fn load_res(res: &String, v: Vec<Arc<flow::Rule>>) -> Option<Result<bool, ()>> {
        Some(flow::load_rules_of_resource(res, v).map_err(|_| ()))
    }
    fn append(r: Arc<flow::Rule>) -> bool {
        flow::append_rule(r)
    }
    fn clear() {
        flow::clear_rules()
    }
    fn clear_res(res: &String) -> bool {
        flow::clear_rules_of_resource(res);
        true
    }
    fn get() -> Vec<Arc<flow::Rule>> {
        flow::get_rules()
    }
    fn get_res(res: &String) -> Option<Vec<Arc<flow::Rule>>> {
        Some(flow::get_rules_of_resource(res))
    }
    fn enforced(res: &String) -> Option<Vec<Arc<flow::Rule>>> {
        let mut v = Vec::new();
        for c in flow::get_traffic_controller_list_for(res).iter() {
            v.push(c.rule().clone());
        }
        Some(v)
    }
}

pub struct IsoF;
impl Fam for IsoF {
    type R = isolation::Rule;
    fn pool() -> Vec<Arc<isolation::Rule>> {
        let mk = |id: &str, res: String, thr: u32| {
            Arc::new(isolation::Rule { id: id.into(), resource: res, threshold: thr, ..Default::default() })
        };
        let mut v = Vec::new();
        v.push(mk("A1", r1(), 1));
        v.push(mk("A2", r1(), 100));
        v.push(mk("B1", r2(), 1));
        v.push(mk("X", r1(), 0));
        v.push(mk("A1x", r1(), 1));
        v
    }
    fn res_of(r: &isolation::Rule) -> String {
        r.resource.clone()
    }
    fn load(v: Vec<Arc<isolation::Rule>>) -> Option<bool> {
        isolation::load_rules(v);
        None
    }
    fn load_res(res: &String, v: Vec<Arc<isolation::Rule>>) -> Option<Result<bool, ()>> {
        Some(isolation::load_rules_of_resource(res, v).map_err(|_| ()))
    }
    fn append(r: Arc<isolation::Rule>) -> bool {
        isolation::append_rule(r)
    }
    fn clear() {
        isolation::clear_rules()
    }
    fn clear_res(res: &String) -> bool {
        isolation::clear_rules_of_resource(res);
        true
    }
    fn get() -> Vec<Arc<isolation::Rule>> {
        isolation::get_rules()
    }
    fn get_res(res: &String) -> Option<Vec<Arc<isolation::Rule>>> {
        Some(isolation::get_rules_of_resource(res))
    }
}

pub struct CbF;
impl Fam for CbF {
    type R = cb::Rule;
    fn pool() -> Vec<Arc<cb::Rule>> {
        let mk = |id: &str, res: String, thr: f64, retry: u32| {
            Arc::new(cb::Rule {
                id: id.into(),
                resource: res,
                strategy: cb::BreakerStrategy::ErrorCount,
                retry_timeout_ms: retry,
                min_request_amount: 1,
                stat_interval_ms: 1000,
                stat_sliding_window_bucket_count: 1,
                max_allowed_rt_ms: 0,
                threshold: thr,
            })
        };
        let mut v = Vec::new();
        v.push(mk("A1", r1(), 1.0, 1000));
        v.push(mk("A2", r1(), 5.0, 1000));
        v.push(mk("B1", r2(), 1.0, 1000));
        v.push(mk("X", r1(), 1.0, 0));
        v.push(mk("A1x", r1(), 1.0, 1000));
        v
    }
    fn res_of(r: &cb::Rule) -> String {
        r.resource.clone()
    }
    fn load(v: Vec<Arc<cb::Rule>>) -> Option<bool> {
        Some(cb::load_rules(v))
    }
    fn load_res(res: &String, v: Vec<Arc<cb::Rule>>) -> Option<Result<bool, ()>> {
        Some(cb::load_rules_of_resource(res, v).map_err(|_| ()))
    }
    fn append(r: Arc<cb::Rule>) -> bool {
        cb::append_rule(r)
    }
    fn clear() {
        cb::clear_rules()
    }
    fn clear_res(res: &String) -> bool {
        cb::clear_rules_of_resource(res);
        true
    }
    fn get() -> Vec<Arc<cb::Rule>> {
        cb::get_rules()
    }
    fn get_res(res: &String) -> Option<Vec<Arc<cb::Rule>>> {
        Some(cb::get_rules_of_resource(res))
    }
    fn enforced(res: &String) -> Option<Vec<Arc<cb::Rule>>> {
        let mut v = Vec::new();
        for b in cb::get_breakers_of_resource(res).iter() {
            v.push(b.bound_rule().clone());
        }
        Some(v)
    }
}

pub struct HotF;
impl Fam for HotF {
    type R = hotspot::Rule;
    fn pool() -> Vec<Arc<hotspot::Rule>> {
        let mk = |id: &str, res: String, thr: u64, d: u64| {
            Arc::new(hotspot::Rule {
                id: id.into(),
                resource: res,
                metric_type: hotspot::MetricType::QPS,
                control_strategy: hotspot::ControlStrategy::Reject,
                threshold: thr,
                duration_in_sec: d,
                ..Default::default()
            })
        };
        let mut v = Vec::new();
        v.push(mk("A1", r1(), 1, 1));
        v.push(mk("A2", r1(), 5, 1));
        v.push(mk("B1", r2(), 1, 1));
        v.push(mk("X", r1(), 1, 0));
        v.push(mk("A1x", r1(), 1, 1));
        v
    }
    fn res_of(r: &hotspot::Rule) -> String {
        r.resource.clone()
    }
    fn load(v: Vec<Arc<hotspot::Rule>>) -> Option<bool> {
        Some(hotspot::load_rules(v))
    }
    fn load_res(res: &String, v: Vec<Arc<hotspot::Rule>>) -> Option<Result<bool, ()>> {
        Some(hotspot::load_rules_of_resource(res, v).map_err(|_| ()))
    }
    fn append(r: Arc<hotspot::Rule>) -> bool {
        hotspot::append_rule(r)
    }
    fn clear() {
        hotspot::clear_rules()
    }
    fn clear_res(res: &String) -> bool {
        hotspot::clear_rules_of_resource(res);
        true
    }
    fn get() -> Vec<Arc<hotspot::Rule>> {
        hotspot::get_rules()
    }
    fn get_res(res: &String) -> Option<Vec<Arc<hotspot::Rule>>> {
        Some(hotspot::get_rules_of_resource(res))
    }
    fn enforced(res: &String) -> Option<Vec<Arc<hotspot::Rule>>> {
        let mut v = Vec::new();
        for c in hotspot::get_traffic_controller_list_for(res).iter() {
            v.push(c.rule().clone());
        }
        Some(v)
    }
}

pub struct SysF;
impl Fam for SysF {
    type R = system::Rule;
    fn pool() -> Vec<Arc<system::Rule>> {
        let mk = |id: &str, m: system::MetricType, thr: f64| {
            Arc::new(system::Rule { id: id.into(), metric_type: m, threshold: thr, ..Default::default() })
        };
        let mut v = Vec::new();
        v.push(mk("A1", system::MetricType::Concurrency, 1000.0));
        v.push(mk("A2", system::MetricType::Concurrency, 2000.0));
        v.push(mk("B1", system::MetricType::InboundQPS, 1000.0));
        v.push(mk("X", system::MetricType::Concurrency, -1.0));
        v.push(mk("A1x", system::MetricType::Concurrency, 1000.0));
        v
    }
    fn res_of(r: &system::Rule) -> String {
        match r.metric_type {
            system::MetricType::Concurrency => r1(),
            _ => r2(),
        }
    }
    fn load(v: Vec<Arc<system::Rule>>) -> Option<bool> {
        system::load_rules(v);
        None
    }
    fn load_res(_res: &String, _v: Vec<Arc<system::Rule>>) -> Option<Result<bool, ()>> {
        None
    }
    fn append(r: Arc<system::Rule>) -> bool {
        system::append_rule(r)
    }
    fn clear() {
        system::clear_rules()
    }
    fn clear_res(_res: &String) -> bool {
        false
    }
    fn get() -> Vec<Arc<system::Rule>> {
        system::get_rules()
    }
    fn get_res(_res: &String) -> Option<Vec<Arc<system::Rule>>> {
        None
    }
}

/// compare a returned rule list with the reference set `want` (pool indices) restricted to `res` (None = all):
/// every returned rule is (equal to) a wanted rule and every wanted rule is present
fn same_set<F: Fam>(pool: &[Arc<F::R>], got: &[Arc<F::R>], want: &[bool; 5], res: Option<&String>) -> bool {
    let mut ok = true;
    for g in got {
        let mut found = false;
        for i in 0..5 {
            let sel = match res {
                Some(r) => F::res_of(&pool[i]) == *r,
                None => true,
            };
            if want[i] && sel && **g == *pool[i] && F::res_of(g) == F::res_of(&pool[i]) {
                found = true;
            }
        }
        if !found {
            ok = false;
        }
    }
    for i in 0..5 {
        let sel = match res {
            Some(r) => F::res_of(&pool[i]) == *r,
            None => true,
        };
        if want[i] && sel {
            let mut present = false;
            for g in got {
                if **g == *pool[i] && F::res_of(g) == F::res_of(&pool[i]) {
                    present = true;
                }
            }
            if !present {
                ok = false;
            }
        }
    }
    ok
}

fn subset<F: Fam>(pool: &[Arc<F::R>], mask: u64, only_res: Option<&String>) -> Vec<Arc<F::R>> {
    let mut v = Vec::new();
    for i in 0..5 {
        let sel = match only_res {
            Some(r) => F::res_of(&pool[i]) == *r,
            None => true,
        };
        if sel && (mask >> i) & 1 == 1 {
            v.push(pool[i].clone());
        }
    }
    v
}

/// shape: p0 = family (0 flow, 1 circuit breaker, 2 hotspot, 3 isolation, 4 system), p1 = ops, p2 = 1: the duplicate A1' is in the pool
pub fn run<F: Fam>(s: Shape) {
    let ops = s.p[1] as usize;
    let with_dup = s.p[2] != 0;
    sentinel_core::verif::clock::arm(crate::util::T0 * 1_000_000);
    let pool = F::pool();
    let valid = [true, true, true, false, true];
    let mut want = [false; 5];
    // representative subsets (bit i = pool rule i): load-all and load-for-resource draw from these
    let all_masks: [u64; 8] = [0, 1, 3, 5, 15, 10, 8, if with_dup { 17 } else { 4 }];
    let res_masks: [u64; 6] = [0, 1, 3, 10, 8, if with_dup { 19 } else { 4 }];
    let mut prev_load: i64 = -1;
    // set once both A1 and A1' have been handed to the manager (what it holds is then ambiguous)
    let mut dup_seen = false;
    for _ in 0..ops {
        let op = vrt::any_u32("op", 0, 5);
        let mut this_load: i64 = -1;
        let state_dup = dup_seen;
        match op {
            0 => {
                let mask = all_masks[vrt::any_usize("mask", 0, 7)];
                let ret = F::load(subset::<F>(&pool, mask, None));
                let mut changed = false;
                for i in 0..5 {
                    let w = valid[i] && (mask >> i) & 1 == 1;
                    if w != want[i] {
                        changed = true;
                    }
                    want[i] = w;
                }
                // a rule given (or held) twice under two ids may be kept once or twice: no claim on the return value then
                let has_dup = ((mask & 1 == 1) && (mask >> 4) & 1 == 1) || state_dup;
                if let Some(r) = ret {
                    if prev_load == mask as i64 {
                        vrt::cover("identical-reload");
                        vrt::check(!r, "C10:identical-reload-reported-as-change");
                    } else if changed && !has_dup {
                        vrt::check(r, "C10:load-reported-unchanged");
                    }
                }
                this_load = mask as i64;
            }
            1 => {
                let which = vrt::any_u32("res", 0, 2);
                let res = match which {
                    0 => r1(),
                    1 => r2(),
                    _ => String::new(),
                };
                let mask = res_masks[vrt::any_usize("mask", 0, 5)];
                match F::load_res(&res, subset::<F>(&pool, mask, Some(&res))) {
                    None => {}
                    Some(ret) => {
                        if which == 2 {
                            vrt::cover("empty-resource-refused");
                            vrt::check(ret.is_err(), "C10:empty-resource-accepted");
                        } else {
                            vrt::check(ret.is_ok(), "C10:load-for-resource-failed");
                            for i in 0..5 {
                                if F::res_of(&pool[i]) == res {
                                    want[i] = valid[i] && (mask >> i) & 1 == 1;
                                }
                            }
                        }
                    }
                }
            }
            2 => {
                let i = vrt::any_usize("rule", 0, if with_dup { 4 } else { 3 });
                let already = {
                    // an equal rule (or the rule itself) is already active
                    let mut a = false;
                    for j in 0..5 {
                        if want[j] && *pool[j] == *pool[i] && F::res_of(&pool[j]) == F::res_of(&pool[i]) {
                            a = true;
                        }
                    }
                    a
                };
                let _ = F::append(pool[i].clone());
                if valid[i] && !already {
                    want[i] = true;
                    vrt::cover("appended");
                }
                if !valid[i] {
                    vrt::cover("invalid-append");
                }
            }
            3 => {
                F::clear();
                want = [false; 5];
            }
            4 => {
                let res = if vrt::any_bool("res2") { r2() } else { r1() };
                if F::clear_res(&res) {
                    for i in 0..5 {
                        if F::res_of(&pool[i]) == res {
                            want[i] = false;
                        }
                    }
                }
            }
            _ => {}
        }
        prev_load = if dup_seen { -1 } else { this_load };
        if want[0] && want[4] {
            dup_seen = true;
        }
        // ---- compare what the manager reports with the reference
        vrt::unordered(true);
        let all = F::get();
        vrt::check(same_set::<F>(&pool, &all, &want, None), "C10:get_rules");
        for k in 0..2 {
            let res = if k == 0 { r1() } else { r2() };
            if let Some(got) = F::get_res(&res) {
                vrt::check(same_set::<F>(&pool, &got, &want, Some(&res)), "C10:get_rules_of_resource");
            }
            if let Some(enf) = F::enforced(&res) {
                vrt::check(same_set::<F>(&pool, &enf, &want, Some(&res)), "C10:enforced-rules-differ-from-the-rules-given");
            }
        }
        vrt::unordered(false);
    }
}

pub fn c10_manager(s: Shape) {
    match s.p[0] {
        0 => run::<FlowF>(s),
        1 => run::<CbF>(s),
        2 => run::<HotF>(s),
        3 => run::<IsoF>(s),
        _ => run::<SysF>(s),
    }
}

/// Never called: makes the rule types' `Hash`/`PartialEq` instances part of the MIR dump, so that the
/// hash-set model can run the real implementations.
pub fn anchors() {
    use std::collections::hash_map::DefaultHasher;
    use std::hash::Hash;
    let mut h = DefaultHasher::new();
    let a = flow::Rule::default();
    a.hash(&mut h);
    let _ = a == a;
    let b = cb::Rule::default();
    b.hash(&mut h);
    let _ = b == b;
    let c = hotspot::Rule::default();
    c.hash(&mut h);
    let _ = c == c;
    let d = isolation::Rule::default();
    d.hash(&mut h);
    let _ = d == d;
    let e = system::Rule::default();
    e.hash(&mut h);
    let _ = e == e;
}
