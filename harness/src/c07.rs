//! C07 — throttling paces admissions, bounds queueing and really delays the caller.
use crate::util::T0;
use crate::{vrt, Shape};
use sentinel_core::api::EntryBuilder;
use sentinel_core::base::{ResourceType, TrafficType};
use sentinel_core::verif::clock;
use sentinel_core::{flow, hotspot};
use std::sync::Arc;

/// shape: p0 = rate r per interval, p1 = interval ms, p2 = max queueing ms, p3 = k requests
pub fn c07_flow_throttling(s: Shape) {
    let r = s.p[0] as u64;
    let interval_ms = s.p[1] as u64;
    let maxq_ms = s.p[2] as u64;
    let k = s.p[3] as usize;
    let res = String::from("c07-flow");
    let rule = Arc::new(flow::Rule {
        id: "t0".into(),
        resource: res.clone(),
        threshold: r as f64,
        stat_interval_ms: interval_ms as u32,
        max_queueing_time_ms: maxq_ms as u32,
        calculate_strategy: flow::CalculateStrategy::Direct,
        control_strategy: flow::ControlStrategy::Throttling,
        ..Default::default()
    });
    let interval_ns = interval_ms * 1_000_000;
    let maxq_ns = maxq_ms * 1_000_000;
    let mut now = vrt::any_u64("t0", T0 * 1_000_000, T0 * 1_000_000 + 999_999);
    clock::arm(now);
    flow::load_rules(crate::util::vec1(rule));
    let chain = crate::util::chain_for(&s, sentinel_core::verif::slots::FLOW);
    let span = if r == 0 { interval_ns } else { 3 * interval_ns / r + maxq_ns };
    // reference: time at which the last admitted request is scheduled (0 = none yet)
    let mut last: u64 = 0;
    let tol = k as u64 + 1; // ns of accumulated rounding (the implementation computes the pace in f64)
    let mut prev_sched: u64 = 0;
    for _ in 0..k {
        let gap = vrt::any_u64("gap", 0, span);
        now += gap;
        clock::set_ns(now);
        let n = vrt::any_u64("batch", 1, 3);
        let got = EntryBuilder::new(res.clone())
            .with_resource_type(ResourceType::Common)
            .with_traffic_type(TrafficType::Outbound)
            .with_batch_count(n as u32)
            .with_slot_chain(chain.clone())
            .build();
        let after = clock::now_ns().unwrap();
        let delay = after - now;
        if r == 0 || n > r {
            vrt::check(got.is_err(), "C07:always-rejected-case-admitted");
            vrt::cover("always-rejected");
            continue;
        }
        let pace = n * interval_ns / r;
        let slot = last + pace;
        match got {
            Ok(e) => {
                if delay == 0 {
                    vrt::cover("admitted-now");
                    // the slot had (about) come
                    vrt::check(slot <= now + tol, "C07:admitted-before-its-slot");
                    last = now;
                } else {
                    vrt::cover("queued");
                    // scheduled at its slot, and the caller was really held until then
                    vrt::check(now + delay + tol >= slot, "C07:released-before-scheduled-time");
                    vrt::check(now + delay <= slot + tol, "C07:held-longer-than-scheduled");
                    vrt::check(delay <= maxq_ns + tol, "C07:queued-beyond-max-queueing-time");
                    last = slot;
                }
                let sched = now + delay;
                if prev_sched != 0 {
                    vrt::check(sched + tol >= prev_sched + pace, "C07:paced-closer-than-interval");
                }
                prev_sched = sched;
                now = after;
                e.exit();
            }
            Err(_) => {
                vrt::cover("rejected");
                vrt::check(delay == 0, "C07:rejected-after-waiting");
                // rejected only when the wait it needed exceeds the maximum
                vrt::check(slot + tol > now + maxq_ns, "C07:rejected-though-wait-fits");
            }
        }
    }
}

/// hotspot QPS throttling.  shape: p0 = q per duration, p1 = duration s, p2 = max queueing ms, p3 = k, p4 = values (1..2)
pub fn c07_hotspot_throttling(s: Shape) {
    let q = s.p[0] as u64;
    let d = s.p[1] as u64;
    let maxq = s.p[2] as u64;
    let k = s.p[3] as usize;
    let nv = s.p[4] as usize;
    let res = String::from("c07-hot");
    let rule = Arc::new(hotspot::Rule {
        id: "h0".into(),
        resource: res.clone(),
        metric_type: hotspot::MetricType::QPS,
        control_strategy: hotspot::ControlStrategy::Throttling,
        param_index: 0,
        threshold: q,
        duration_in_sec: d,
        max_queueing_time_ms: maxq,
        ..Default::default()
    });
    let mut t = vrt::any_u64("t0", T0, T0 + 999);
    clock::arm(t * 1_000_000);
    hotspot::load_rules(crate::util::vec1(rule));
    let chain = crate::util::chain_for(&s, sentinel_core::verif::slots::HOTSPOT);
    let mut seen = [false; 2];
    let mut last = [0u64; 2]; // scheduled time (ms) of the last admitted request per value
    let mut prev_sched = [0u64; 2];
    for _ in 0..k {
        let gap = vrt::any_u64("gap", 0, if q == 0 { 1000 } else { 3 * d * 1000 / q + maxq });
        t += gap;
        clock::set_ns(t * 1_000_000);
        let v = vrt::any_usize("value", 0, nv - 1);
        let n = vrt::any_u64("batch", 1, 2);
        let mut a: Vec<String> = Vec::new();
        a.push(crate::util::name("v", v));
        let got = EntryBuilder::new(res.clone())
            .with_resource_type(ResourceType::Common)
            .with_traffic_type(TrafficType::Outbound)
            .with_batch_count(n as u32)
            .with_args(Some(a))
            .with_slot_chain(chain.clone())
            .build();
        let after_ns = clock::now_ns().unwrap();
        let delay_ns = after_ns - t * 1_000_000;
        if q == 0 {
            vrt::check(got.is_err(), "C07h:threshold-zero-admitted");
            continue;
        }
        // pace in ms, rounded to nearest as documented for the hotspot checker (1 ms slack)
        let pace = (2 * n * d * 1000 + q) / (2 * q);
        match got {
            Ok(e) => {
                if !seen[v] {
                    seen[v] = true;
                    vrt::check(delay_ns == 0, "C07h:first-request-delayed");
                    last[v] = t;
                } else {
                    let slot = last[v] + pace;
                    if slot <= t {
                        vrt::cover("admitted-now");
                        vrt::check(delay_ns == 0, "C07h:delayed-after-its-slot");
                        last[v] = t;
                    } else {
                        vrt::cover("queued");
                        let w = slot - t;
                        vrt::check(w <= maxq, "C07h:queued-beyond-max-queueing-time");
                        // the caller must really be held until the scheduled time (1 ms rounding slack)
                        vrt::check(delay_ns + 1_000_000 >= w * 1_000_000, "C07h:released-before-scheduled-time");
                        last[v] = slot;
                    }
                }
                // implementation-independent pacing: scheduled no closer than batch*duration/q, where the
                // scheduled time is when the caller is released; half a millisecond of rounding is allowed:
                // spacing >= n*d*1000/q - 1/2  <=>  2*q*spacing + q >= 2*n*d*1000
                let sched = after_ns / 1_000_000;
                if prev_sched[v] != 0 {
                    vrt::check(2 * q * (sched - prev_sched[v]) + q >= 2 * n * d * 1000, "C07h:paced-closer-than-interval");
                }
                prev_sched[v] = sched;
                t = after_ns / 1_000_000;
                e.exit();
            }
            Err(_) => {
                vrt::cover("rejected");
                vrt::check(seen[v], "C07h:first-request-rejected");
                let slot = last[v] + pace;
                vrt::check(slot > t && slot - t + 1 >= maxq, "C07h:rejected-though-wait-fits");
            }
        }
    }
}
