//! C20 — Tower middleware calls the service iff admitted and always releases admission.
use crate::util::T0;
use crate::{vrt, Shape};
use sentinel_core::base::ConcurrencyStat;
use sentinel_core::isolation;
use sentinel_core::stat::get_resource_node;
use sentinel_core::verif::clock;
use sentinel_tower::{BoxError, SentinelService, ServiceRole};
use std::future::Future;
use std::pin::Pin;
use std::sync::atomic::{AtomicU32, Ordering};
use std::sync::Arc;
use std::task::{Context, Poll, RawWaker, RawWakerVTable, Waker};
use tower::Service;

/// the inner service: counts its calls; the outcome of each call is taken from the request
#[derive(Clone)]
pub struct Inner {
    calls: Arc<AtomicU32>,
}
pub struct Fut {
    outcome: u8, // 0 ready Ok, 1 ready Err, 2 pending-then-Ok, 3 pending-then-Err
    polled: bool,
}
impl Future for Fut {
    type Output = Result<u32, String>;
    fn poll(mut self: Pin<&mut Self>, _cx: &mut Context<'_>) -> Poll<Self::Output> {
        if self.outcome >= 2 && !self.polled {
            self.polled = true;
            return Poll::Pending;
        }
        if self.outcome % 2 == 0 {
            Poll::Ready(Ok(7))
        } else {
            Poll::Ready(Err(String::from("inner error")))
        }
    }
}
impl Service<u8> for Inner {
    type Response = u32;
    type Error = String;
    type Future = Fut;
    fn poll_ready(&mut self, _cx: &mut Context<'_>) -> Poll<Result<(), String>> {
        Poll::Ready(Ok(()))
    }
    fn call(&mut self, req: u8) -> Fut {
        self.calls.fetch_add(1, Ordering::SeqCst);
        Fut { outcome: req, polled: false }
    }
}

fn noop_raw() -> RawWaker {
    fn no(_: *const ()) {}
    fn cl(_: *const ()) -> RawWaker {
        noop_raw()
    }
    static VT: RawWakerVTable = RawWakerVTable::new(cl, no, no, no);
    RawWaker::new(std::ptr::null(), &VT)
}

fn extract(_r: &u8) -> String {
    String::from("c20")
}
fn fallback(_r: &u8, _e: sentinel_core::Error) -> Result<u32, BoxError> {
    Ok(99)
}

/// shape: p0 = requests, p1 = isolation threshold (1..2), p2 = 1: with fallback, p3 = role (0 server, 1 client),
/// p4 = 1: the future of request 0 is polled once and then dropped (only observed, never asserted)
pub fn c20_tower(s: Shape) {
    let n = s.p[0] as usize;
    let thr = s.p[1] as u32;
    clock::arm(T0 * 1_000_000);
    isolation::load_rules(crate::util::vec1(Arc::new(isolation::Rule {
        id: "i".into(),
        resource: "c20".into(),
        threshold: thr,
        ..Default::default()
    })));
    let calls = Arc::new(AtomicU32::new(0));
    let role = if s.p[3] == 0 { ServiceRole::Server } else { ServiceRole::Client };
    let mut svc = SentinelService::<Inner, u8>::new(Inner { calls: calls.clone() }, role).with_extractor(extract);
    if s.p[2] == 1 {
        svc = svc.with_fallback(fallback);
    }
    let waker = unsafe { Waker::from_raw(noop_raw()) };
    let mut cx = Context::from_waker(&waker);
    // a request that stays in flight (pending) occupies one admission while the others run
    let mut held: Option<Pin<Box<dyn Future<Output = Result<u32, BoxError>> + Send>>> = None;
    let mut held_outcome = 0u8;
    for i in 0..n {
        let outcome = vrt::any_u32("outcome", 0, 3) as u8;
        let hold = held.is_none() && outcome >= 2 && vrt::any_bool("hold");
        let inflight_before = match get_resource_node(&"c20".into()) {
            Some(nd) => nd.current_concurrency(),
            None => 0,
        };
        let admitted_expected = inflight_before + 1 <= thr;
        let calls_before = calls.load(Ordering::SeqCst);
        let mut fut = svc.call(outcome);
        let called = calls.load(Ordering::SeqCst) - calls_before;
        vrt::check(called == admitted_expected as u32, "C20:inner-called-iff-admitted");
        if !admitted_expected {
            vrt::cover("rejected");
            // rejected requests resolve at once: fallback response or an error
            match fut.as_mut().poll(&mut cx) {
                Poll::Ready(r) => {
                    if s.p[2] == 1 {
                        vrt::check(matches!(r, Ok(99)), "C20:rejected-without-fallback-response");
                    } else {
                        vrt::check(r.is_err(), "C20:rejected-request-succeeded");
                    }
                }
                Poll::Pending => vrt::check(false, "C20:rejected-request-pending"),
            }
            continue;
        }
        vrt::cover("admitted");
        if s.p[4] == 1 && i == 0 {
            // dropped before completion: explored, observed, not asserted
            let _ = fut.as_mut().poll(&mut cx);
            drop(fut);
            let after = get_resource_node(&"c20".into()).unwrap().current_concurrency();
            vrt::observe("inflight-after-drop", after as i64);
            vrt::cover("dropped");
            continue;
        }
        if hold {
            // first poll: pending; keep it in flight
            let p = fut.as_mut().poll(&mut cx);
            vrt::check(p.is_pending(), "C20:pending-call-resolved-early");
            held = Some(fut);
            held_outcome = outcome;
            vrt::cover("held");
            continue;
        }
        // drive to completion
        let mut result = None;
        for _ in 0..3 {
            if let Poll::Ready(r) = fut.as_mut().poll(&mut cx) {
                result = Some(r);
                break;
            }
        }
        match result {
            Some(r) => {
                vrt::check(r.is_ok() == (outcome % 2 == 0), "C20:response-not-forwarded");
                if r.is_err() {
                    vrt::cover("inner-error");
                }
            }
            None => vrt::check(false, "C20:call-never-completed"),
        }
        drop(fut);
        let after = get_resource_node(&"c20".into()).unwrap().current_concurrency();
        vrt::check(after == inflight_before, "C20:admission-not-released");
    }
    if let Some(mut fut) = held {
        let before = get_resource_node(&"c20".into()).unwrap().current_concurrency();
        let mut done = false;
        for _ in 0..3 {
            if let Poll::Ready(r) = fut.as_mut().poll(&mut cx) {
                vrt::check(r.is_ok() == (held_outcome % 2 == 0), "C20:response-not-forwarded");
                done = true;
                break;
            }
        }
        vrt::check(done, "C20:call-never-completed");
        drop(fut);
        let after = get_resource_node(&"c20".into()).unwrap().current_concurrency();
        vrt::check(after + 1 == before, "C20:admission-not-released");
    }
}
