//! C16 — circuit-breaker transitions are atomic under concurrency: one probe, one winner.
use crate::util::T0;
use crate::{vrt, Shape};
use sentinel_core::api::EntryBuilder;
use sentinel_core::base::{EntryStrongPtr, ResourceType, Snapshot, TrafficType};
use sentinel_core::circuitbreaker as cb;
use sentinel_core::circuitbreaker::{BreakerStrategy, State, StateChangeListener};
use sentinel_core::verif::{clock, slot_chain_of, slots};
use sentinel_core::Error;
use std::sync::{Arc, Mutex};

fn st_code(s: State) -> u8 {
    match s {
        State::Closed => 0,
        State::HalfOpen => 1,
        State::Open => 2,
    }
}

struct Lsn {
    log: Mutex<Vec<(u8, u8)>>, // (new state, prev)
}
impl StateChangeListener for Lsn {
    // (a listener may be slow: in a stress replay the sync point sleeps for a pseudo-random time, which widens the
    // windows in which other threads meet a breaker in the middle of a transition)
    fn on_transform_to_closed(&self, prev: State, _rule: Arc<cb::Rule>) {
        sentinel_core::verif::sync::sync_point(9);
        self.log.lock().unwrap().push((0, st_code(prev)));
    }
    fn on_transform_to_open(&self, prev: State, _rule: Arc<cb::Rule>, _s: Option<Arc<Snapshot>>) {
        sentinel_core::verif::sync::sync_point(9);
        self.log.lock().unwrap().push((2, st_code(prev)));
    }
    fn on_transform_to_half_open(&self, prev: State, _rule: Arc<cb::Rule>) {
        sentinel_core::verif::sync::sync_point(9);
        self.log.lock().unwrap().push((1, st_code(prev)));
    }
    fn on_circuit_breaker_drop(&self, _prev: State, _rule: Arc<cb::Rule>) {}
}

struct RtSlot {}
impl sentinel_core::base::BaseSlot for RtSlot {
    fn order(&self) -> u32 {
        1000
    }
}
impl sentinel_core::base::StatSlot for RtSlot {
    fn on_completed(&self, ctx: &mut sentinel_core::base::EntryContext) {
        let rt = sentinel_core::utils::curr_time_millis() - ctx.start_time();
        ctx.set_round_trip(rt);
    }
}

/// shape: p0 = situation (0: two completions that each would open the breaker; 1: two requests after the retry timeout;
/// 2: a probe completion racing a new request and a stale failing completion; 3: a failing probe racing a new request;
/// 4: an opening failure racing a new request), p1 = preemption bound, p2 = strategy (1 error ratio, 2 error count)
pub fn c16_breaker_race(s: Shape) {
    let res = String::from("c16");
    let lsn = Arc::new(Lsn { log: Mutex::new(Vec::new()) });
    cb::clear_state_change_listeners();
    cb::register_state_change_listeners(crate::util::vec1(lsn.clone() as Arc<dyn StateChangeListener>));
    let mut t = T0 + 9_100;
    clock::arm(t * 1_000_000);
    cb::load_rules(crate::util::vec1(Arc::new(cb::Rule {
        id: "b".into(),
        resource: res.clone(),
        strategy: if s.p[2] == 1 { BreakerStrategy::ErrorRatio } else { BreakerStrategy::ErrorCount },
        retry_timeout_ms: 400,
        min_request_amount: 1,
        stat_interval_ms: 10_000,
        stat_sliding_window_bucket_count: 1,
        max_allowed_rt_ms: 0,
        threshold: if s.p[2] == 1 { 0.5 } else { 1.0 },
    })));
    let chain = slot_chain_of(slots::BREAKER | slots::STAT_BREAKER, Some(Arc::new(RtSlot {})));
    let enter = |chain: &Arc<sentinel_core::base::SlotChain>, res: &String| {
        EntryBuilder::new(res.clone())
            .with_resource_type(ResourceType::Common)
            .with_traffic_type(TrafficType::Outbound)
            .with_slot_chain(chain.clone())
            .build()
    };
    let fail = |e: EntryStrongPtr| {
        e.set_err(Error::msg("boom"));
        e.exit();
    };
    let br = cb::get_breakers_of_resource(&res);
    // position in the listener log at which the race starts (the clock stands still during the race)
    let mut race_from = usize::MAX;
    match s.p[0] {
        0 => {
            let e1 = enter(&chain, &res).unwrap();
            let e2 = enter(&chain, &res).unwrap();
            vrt::threads(s.p[1] as u32);
            let h1 = std::thread::spawn(move || {
                vrt::start_line(2);
                fail(e1)
            });
            let h2 = std::thread::spawn(move || {
                vrt::start_line(2);
                fail(e2)
            });
            h1.join().unwrap();
            h2.join().unwrap();
            vrt::cover("raced");
            let l = lsn.log.lock().unwrap();
            vrt::check(l.len() == 1 && l[0] == (2, 0), "C16:open-announced-not-exactly-once");
            vrt::check(st_code(br[0].current_state()) == 2, "C16:not-open-after-failures");
        }
        1 => {
            let e1 = enter(&chain, &res).unwrap();
            fail(e1);
            vrt::check(st_code(br[0].current_state()) == 2, "C16:setup-not-open");
            t += 400;
            clock::set_ns(t * 1_000_000);
            vrt::threads(s.p[1] as u32);
            let (c1, r1) = (chain.clone(), res.clone());
            let (c2, r2) = (chain.clone(), res.clone());
            let h1 = std::thread::spawn(move || {
                vrt::start_line(2);
                EntryBuilder::new(r1).with_slot_chain(c1).build().ok()
            });
            let h2 = std::thread::spawn(move || {
                vrt::start_line(2);
                EntryBuilder::new(r2).with_slot_chain(c2).build().ok()
            });
            let a = h1.join().unwrap();
            let b = h2.join().unwrap();
            vrt::cover("raced");
            let admitted = a.is_some() as u32 + b.is_some() as u32;
            vrt::check(admitted == 1, "C16:not-exactly-one-probe");
            let l = lsn.log.lock().unwrap();
            vrt::check(l.len() == 2 && l[1] == (1, 2), "C16:half-open-announced-not-exactly-once");
            vrt::check(st_code(br[0].current_state()) == 1, "C16:not-half-open-with-probe-in-flight");
        }
        3 => {
            // the probe fails (Half-Open -> Open, with a fresh retry timeout) while a new request arrives:
            // Half-Open rejects it, and so does Open before the new timeout
            let e1 = enter(&chain, &res).unwrap();
            fail(e1);
            t += 400;
            clock::set_ns(t * 1_000_000);
            let probe = enter(&chain, &res).unwrap();
            vrt::check(st_code(br[0].current_state()) == 1, "C16:setup-not-half-open");
            race_from = lsn.log.lock().unwrap().len();
            vrt::threads(s.p[1] as u32);
            let (c2, r2) = (chain.clone(), res.clone());
            let h1 = std::thread::spawn(move || {
                vrt::start_line(2);
                fail(probe)
            });
            let h2 = std::thread::spawn(move || {
                vrt::start_line(2);
                EntryBuilder::new(r2).with_slot_chain(c2).build().ok()
            });
            h1.join().unwrap();
            let newcomer = h2.join().unwrap();
            vrt::cover("raced");
            vrt::check(newcomer.is_none(), "C16:admitted-while-half-open-or-open-before-the-retry-timeout");
            vrt::check(st_code(br[0].current_state()) == 2, "C16:not-open-after-failed-probe");
        }
        4 => {
            // a failing completion opens the breaker while a new request arrives: admitted if it came first,
            // rejected afterwards - never admitted as a probe
            let e1 = enter(&chain, &res).unwrap();
            race_from = lsn.log.lock().unwrap().len();
            vrt::threads(s.p[1] as u32);
            let (c2, r2) = (chain.clone(), res.clone());
            let h1 = std::thread::spawn(move || {
                vrt::start_line(2);
                fail(e1)
            });
            let h2 = std::thread::spawn(move || {
                vrt::start_line(2);
                EntryBuilder::new(r2).with_slot_chain(c2).build().ok()
            });
            h1.join().unwrap();
            let newcomer = h2.join().unwrap();
            vrt::cover("raced");
            vrt::check(st_code(br[0].current_state()) == 2, "C16:not-open-after-failure");
            let _ = newcomer;
        }
        _ => {
            // stale entry admitted while closed, then the breaker opens, then a probe is admitted
            let stale = enter(&chain, &res).unwrap();
            let e1 = enter(&chain, &res).unwrap();
            fail(e1);
            t += 400;
            clock::set_ns(t * 1_000_000);
            let probe = enter(&chain, &res).unwrap();
            vrt::check(st_code(br[0].current_state()) == 1, "C16:setup-not-half-open");
            vrt::threads(s.p[1] as u32);
            let (c2, r2) = (chain.clone(), res.clone());
            let h1 = std::thread::spawn(move || {
                vrt::start_line(3);
                probe.exit()
            });
            let h2 = std::thread::spawn(move || {
                vrt::start_line(3);
                EntryBuilder::new(r2).with_slot_chain(c2).build().ok()
            });
            let h3 = std::thread::spawn(move || {
                vrt::start_line(3);
                fail(stale)
            });
            h1.join().unwrap();
            let newcomer = h2.join().unwrap();
            h3.join().unwrap();
            vrt::cover("raced");
            let _ = newcomer;
        }
    }
    // in every situation: the listener saw a path of the state machine and the breaker is where that path ends
    let l = lsn.log.lock().unwrap();
    let mut cur = 0u8;
    let mut opened_in_race = false;
    for (k, (new, prev)) in l.iter().enumerate() {
        if k >= race_from {
            // the retry timeout cannot elapse while the clock stands still
            vrt::check(!(opened_in_race && *new == 1), "C16:half-open-before-the-retry-timeout");
            if *new == 2 {
                opened_in_race = true;
            }
        }
        vrt::check(*prev == cur, "C16:transition-announced-with-wrong-previous-state");
        let legal = matches!((cur, *new), (0, 2) | (2, 1) | (1, 0) | (1, 2));
        vrt::check(legal, "C16:illegal-transition");
        cur = *new;
    }
    vrt::check(st_code(br[0].current_state()) == cur, "C16:state-differs-from-announced-path");
}
