//! C08 — warm-up ramps from threshold/coldFactor up to threshold, and cools when idle.
//! Decided by inductive steps from an arbitrary calculator state (see DESIGN.md): each lemma runs the real
//! `calculate_allowed_threshold` (and with it `sync_token` / `cool_down_tokens`) once from a symbolic state.
use crate::util::T0;
use crate::{vrt, Shape};
use sentinel_core::base::{MetricEvent, ReadStat};
use sentinel_core::flow::{self, Calculator, Controller, RejectChecker, StandaloneStat, WarmUpCalculator};
use sentinel_core::verif::clock;
use std::sync::atomic::{AtomicU64, Ordering};
use std::sync::{Arc, Mutex};

/// the rule's read-only statistic: the harness decides what "passes in the previous interval" is
#[derive(Debug)]
struct PrevQps {
    prev: AtomicU64,
}
impl ReadStat for PrevQps {
    fn qps_previous(&self, _e: MetricEvent) -> f64 {
        self.prev.load(Ordering::SeqCst) as f64
    }
}

struct Unit {
    calc: Arc<Mutex<WarmUpCalculator>>,
    _ctrl: Arc<Controller>,
    read: Arc<PrevQps>,
}

fn unit(q: u64, c: u32, p: u32) -> Unit {
    let rule = Arc::new(flow::Rule {
        id: "w".into(),
        resource: "c08".into(),
        threshold: q as f64,
        calculate_strategy: flow::CalculateStrategy::WarmUp,
        control_strategy: flow::ControlStrategy::Reject,
        warm_up_period_sec: p,
        warm_up_cold_factor: c,
        ..Default::default()
    });
    let read = Arc::new(PrevQps { prev: AtomicU64::new(0) });
    let stat = Arc::new(StandaloneStat::new(false, read.clone(), None));
    // wired like the built-in generator does
    let calc = Arc::new(Mutex::new(WarmUpCalculator::new(std::sync::Weak::new(), rule.clone())));
    let checker: Arc<Mutex<dyn flow::Checker>> = Arc::new(Mutex::new(RejectChecker::new(std::sync::Weak::new(), rule.clone())));
    let mut tsc = Controller::new(rule, stat);
    tsc.set_calculator(calc.clone() as Arc<Mutex<dyn Calculator>>);
    tsc.set_checker(checker.clone());
    let tsc = Arc::new(tsc);
    calc.lock().unwrap().set_owner(Arc::downgrade(&tsc));
    checker.lock().unwrap().set_owner(Arc::downgrade(&tsc));
    Unit { calc, _ctrl: tsc, read }
}

/// shape: p0 = q, p1 = cold factor (0 = default 3), p2 = period (s), p3 = lemma
///   1: range + invariant after an arbitrary step     2: monotone in stored tokens + end points
///   3: saturating step never raises the stored tokens 4: idle for 2p seconds -> cold again
///   5: the ramp from cold under the slowest saturating demand reaches the threshold within 2p + 2 s
pub fn c08_warmup(s: Shape) {
    let q = s.p[0] as u64;
    let c = s.p[1] as u32;
    let p = s.p[2] as u32;
    let ceff = if c <= 1 { 3 } else { c } as u64;
    let u = unit(q, c, p);
    let (_, _, warning, max) = u.calc.lock().unwrap().verif_state();
    let sec0 = T0 / 1000 + 100;
    clock::arm(sec0 * 1000 * 1_000_000);
    let eps = 1e-9;
    let qf = q as f64;
    let lo = qf / ceff as f64;
    match s.p[3] {
        1 => {
            // from any state with stored <= max, any time step and any previous pass count
            let stored = vrt::any_u64("stored", 0, max);
            let k = vrt::any_u64("seconds", 0, 2 * p as u64 + 2);
            let phase = vrt::any_u64("phase", 0, 999);
            let prev = vrt::any_u64("prev", 0, q);
            u.calc.lock().unwrap().verif_set_state(stored, sec0 * 1000);
            u.read.prev.store(prev, Ordering::SeqCst);
            clock::set_ns((sec0 * 1000 + k * 1000 + phase) * 1_000_000);
            let a = u.calc.lock().unwrap().calculate_allowed_threshold(1, 0);
            let (stored2, last2, _, _) = u.calc.lock().unwrap().verif_state();
            vrt::check(a <= qf * (1.0 + eps), "C08:allowed-above-threshold");
            vrt::check(a >= lo * (1.0 - eps), "C08:allowed-below-threshold-over-cold-factor");
            vrt::check(stored2 <= max, "C08:stored-tokens-above-maximum");
            vrt::check(last2 == (sec0 + k) * 1000, "C08:tokens-not-synchronised-to-the-second");
            if k == 0 {
                vrt::cover("same-second");
                vrt::check(stored2 == stored, "C08:synchronised-twice-in-a-second");
            } else {
                vrt::cover("new-second");
            }
        }
        2 => {
            // within one second the allowance depends on the stored tokens only, and never grows with them
            let s1 = vrt::any_u64("stored", 0, max - 1);
            u.calc.lock().unwrap().verif_set_state(s1, sec0 * 1000);
            let a1 = u.calc.lock().unwrap().calculate_allowed_threshold(1, 0);
            u.calc.lock().unwrap().verif_set_state(s1 + 1, sec0 * 1000);
            let a2 = u.calc.lock().unwrap().calculate_allowed_threshold(1, 0);
            // (the implementation nudges the result by one ulp: compared with a 1e-9 relative tolerance)
            vrt::check(a2 <= a1 * (1.0 + eps), "C08:allowed-grows-with-stored-tokens");
            if s1 < warning {
                vrt::cover("warm");
                vrt::check(a1 == qf, "C08:warm-allowance-is-not-the-threshold");
            }
            if s1 + 1 == max {
                vrt::cover("cold");
                vrt::check(a2 <= lo * (1.0 + 1e-6) && a2 >= lo * (1.0 - eps), "C08:cold-allowance-is-not-threshold-over-cold-factor");
            }
        }
        3 => {
            // saturating demand: the previous second passed (at least the integer part of) what was allowed
            let stored = vrt::any_u64("stored", 0, max);
            u.calc.lock().unwrap().verif_set_state(stored, sec0 * 1000);
            let a0 = u.calc.lock().unwrap().calculate_allowed_threshold(1, 0);
            let prev = vrt::any_u64("prev", 0, q);
            vrt::assume(prev as f64 + 1.0 > a0);
            u.read.prev.store(prev, Ordering::SeqCst);
            let phase = vrt::any_u64("phase", 0, 999);
            clock::set_ns((sec0 * 1000 + 1000 + phase) * 1_000_000);
            let a1 = u.calc.lock().unwrap().calculate_allowed_threshold(1, 0);
            let (stored2, _, _, _) = u.calc.lock().unwrap().verif_state();
            vrt::check(stored2 <= stored, "C08:saturating-step-raises-stored-tokens");
            vrt::check(a1 >= a0 * (1.0 - eps), "C08:allowance-decreases-under-saturating-demand");
            if stored >= warning {
                vrt::cover("ramping");
                // progress: at least floor(q/c) tokens leave (or the store is empty)
                vrt::check(stored2 == 0 || stored2 + q / ceff <= stored, "C08:no-progress-while-ramping");
            }
        }
        5 => {
            // the ramp itself, for the slowest saturating demand (exactly the integer part of the allowance
            // passes every second; by lemma 3 more passes leave fewer tokens, by lemma 2 fewer tokens allow more):
            // starting cold, the allowance never decreases and is the threshold after 2p + 2 seconds
            let phase = vrt::any_u64("phase", 0, 999);
            u.calc.lock().unwrap().verif_set_state(max, sec0 * 1000);
            let mut a = u.calc.lock().unwrap().calculate_allowed_threshold(1, 0);
            vrt::check(a <= lo * (1.0 + 1e-6) && a >= lo * (1.0 - eps), "C08:cold-start-allowance-is-not-threshold-over-cold-factor");
            for k in 1..=(2 * p as u64 + 2) {
                u.read.prev.store(a as u64, Ordering::SeqCst);
                clock::set_ns((sec0 * 1000 + k * 1000 + phase) * 1_000_000);
                let a2 = u.calc.lock().unwrap().calculate_allowed_threshold(1, 0);
                vrt::check(a2 >= a * (1.0 - eps), "C08:allowance-decreases-during-the-ramp");
                vrt::check(a2 <= qf * (1.0 + eps), "C08:allowed-above-threshold");
                a = a2;
            }
            vrt::cover("ramped");
            vrt::check(a == qf, "C08:threshold-not-reached-within-2p+2-seconds");
        }
        _ => {
            // idle for at least 2p seconds: cold again
            let stored = vrt::any_u64("stored", 0, max);
            u.calc.lock().unwrap().verif_set_state(stored, sec0 * 1000);
            u.read.prev.store(0, Ordering::SeqCst);
            let k = vrt::any_u64("seconds", 2 * p as u64, 5 * p as u64);
            let phase = vrt::any_u64("phase", 0, 999);
            clock::set_ns((sec0 * 1000 + k * 1000 + phase) * 1_000_000);
            let a = u.calc.lock().unwrap().calculate_allowed_threshold(1, 0);
            let (stored2, _, _, _) = u.calc.lock().unwrap().verif_state();
            vrt::cover("idle");
            vrt::check(stored2 == max, "C08:not-cold-after-idle-period");
            vrt::check(a <= lo * (1.0 + 1e-6), "C08:allowance-not-cold-after-idle-period");
        }
    }
}
