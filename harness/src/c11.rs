//! C11 — hot reload keeps the state of unchanged rules and applies changed ones at once.
//! Twin construction: resources A and B carry equal rules and receive identical traffic; at one point A's
//! rules are re-loaded as fresh, equal rule objects (new ids, reversed order, other resources changing in the
//! same call) while B is left alone. From then on A must decide exactly like B.
use crate::util::T0;
use crate::{vrt, Shape};
use sentinel_core::api::EntryBuilder;
use sentinel_core::base::{EntryStrongPtr, ResourceType, TrafficType};
use sentinel_core::verif::clock;
use sentinel_core::{circuitbreaker as cb, flow, hotspot};
use sentinel_core::Error;
use std::sync::Arc;

fn ra() -> String {
    "c11-a".into()
}
fn rb() -> String {
    "c11-b".into()
}
fn rc() -> String {
    "c11-c".into()
}

fn flow_rules(kind: i64, res: String, tag: &str, changed: i64, thr: i64) -> Vec<Arc<flow::Rule>> {
    let mut main = flow::Rule {
        id: crate::util::name(tag, 1),
        resource: res.clone(),
        threshold: if changed == 1 { 0.0 } else { thr as f64 },
        ..Default::default()
    };
    match kind {
        3 => {
            // warm-up on the resource window: 4 per second, period 1 s, default cold factor 3
            // (warning line 2 tokens, maximum 4: cold allowance 1.33, warm after two to three busy seconds)
            main.calculate_strategy = flow::CalculateStrategy::WarmUp;
            main.warm_up_period_sec = 1;
            main.threshold = if changed == 1 { 8.0 } else { 4.0 };
        }
        1 => main.stat_interval_ms = 700,
        2 => {
            main.control_strategy = flow::ControlStrategy::Throttling;
            main.max_queueing_time_ms = 500;
            if changed == 2 {
                // only the pace changes: one per 10 s instead of one per second
                main.stat_interval_ms = 10_000;
            }
        }
        _ => {}
    }
    let side = flow::Rule {
        id: crate::util::name(tag, 2),
        resource: res,
        threshold: 1000.0,
        stat_interval_ms: 5000,
        ..Default::default()
    };
    let mut v = Vec::new();
    v.push(Arc::new(main));
    v.push(Arc::new(side));
    v
}

fn hot_rules(kind: i64, res: String, tag: &str, changed: i64, thr: i64) -> Vec<Arc<hotspot::Rule>> {
    let mut main = hotspot::Rule {
        id: crate::util::name(tag, 1),
        resource: res.clone(),
        metric_type: hotspot::MetricType::QPS,
        control_strategy: hotspot::ControlStrategy::Reject,
        param_index: 0,
        threshold: if changed == 1 { 0 } else { thr as u64 },
        duration_in_sec: 1,
        ..Default::default()
    };
    match kind {
        5 => {
            main.control_strategy = hotspot::ControlStrategy::Throttling;
            main.max_queueing_time_ms = 500;
            if changed == 2 {
                main.duration_in_sec = 10;
            }
        }
        6 => {
            main.metric_type = hotspot::MetricType::Concurrency;
            main.threshold = if changed == 1 { 0 } else { 1 };
        }
        _ => {}
    }
    let side = hotspot::Rule {
        id: crate::util::name(tag, 2),
        resource: res,
        metric_type: hotspot::MetricType::QPS,
        control_strategy: hotspot::ControlStrategy::Reject,
        param_index: 0,
        threshold: 1000,
        duration_in_sec: 3,
        ..Default::default()
    };
    let mut v = Vec::new();
    v.push(Arc::new(main));
    v.push(Arc::new(side));
    v
}

fn cb_rules(res: String, tag: &str, changed: i64) -> Vec<Arc<cb::Rule>> {
    let main = cb::Rule {
        id: crate::util::name(tag, 1),
        resource: res.clone(),
        strategy: cb::BreakerStrategy::ErrorCount,
        retry_timeout_ms: 400,
        min_request_amount: 1,
        stat_interval_ms: 1000,
        stat_sliding_window_bucket_count: 1,
        max_allowed_rt_ms: 0,
        threshold: if changed != 0 { 5.0 } else { 1.0 },
    };
    let side = cb::Rule {
        id: crate::util::name(tag, 2),
        resource: res,
        strategy: cb::BreakerStrategy::ErrorRatio,
        retry_timeout_ms: 5000,
        min_request_amount: 100,
        stat_interval_ms: 2000,
        stat_sliding_window_bucket_count: 1,
        max_allowed_rt_ms: 0,
        threshold: 1.0,
    };
    let mut v = Vec::new();
    v.push(Arc::new(main));
    v.push(Arc::new(side));
    v
}

fn rev<T>(mut v: Vec<T>) -> Vec<T> {
    let b = v.pop().unwrap();
    let a = v.pop().unwrap();
    let mut r = Vec::new();
    r.push(b);
    r.push(a);
    r
}

/// (re)load. `fresh_a`: A's rules as newly built equal objects with other ids in reversed order;
/// `changed_a`: A's main rule with changed parameters; `with_c`: another resource C is present in this call.
fn load(kind: i64, thr: i64, per_resource: bool, first: bool, fresh_a: bool, changed_a: i64, with_c: bool,
        keep: &mut (Vec<Arc<flow::Rule>>, Vec<Arc<hotspot::Rule>>, Vec<Arc<cb::Rule>>)) {
    if kind <= 3 {
        let a = if fresh_a || changed_a != 0 { rev(flow_rules(kind, ra(), "n", changed_a, thr)) } else { flow_rules(kind, ra(), "a", 0, thr) };
        if first {
            keep.0 = flow_rules(kind, rb(), "b", 0, thr);
        }
        if first {
            let _ = flow::load_rules_of_resource(&ra(), a);
            let _ = flow::load_rules_of_resource(&rb(), keep.0.clone());
        } else if per_resource {
            let _ = flow::load_rules_of_resource(&ra(), a);
        } else {
            let mut all = a;
            for r in keep.0.iter() {
                all.push(r.clone());
            }
            if with_c {
                for r in flow_rules(0, rc(), "c", 0, thr) {
                    all.push(r);
                }
            }
            flow::load_rules(all);
        }
    } else if kind <= 6 {
        let a = if fresh_a || changed_a != 0 { rev(hot_rules(kind, ra(), "n", changed_a, thr)) } else { hot_rules(kind, ra(), "a", 0, thr) };
        if first {
            keep.1 = hot_rules(kind, rb(), "b", 0, thr);
        }
        if first {
            let _ = hotspot::load_rules_of_resource(&ra(), a);
            let _ = hotspot::load_rules_of_resource(&rb(), keep.1.clone());
        } else if per_resource {
            let _ = hotspot::load_rules_of_resource(&ra(), a);
        } else {
            let mut all = a;
            for r in keep.1.iter() {
                all.push(r.clone());
            }
            if with_c {
                for r in hot_rules(4, rc(), "c", 0, thr) {
                    all.push(r);
                }
            }
            hotspot::load_rules(all);
        }
    } else {
        let a = if fresh_a || changed_a != 0 { rev(cb_rules(ra(), "n", changed_a)) } else { cb_rules(ra(), "a", 0) };
        if first {
            keep.2 = cb_rules(rb(), "b", 0);
        }
        if first {
            let _ = cb::load_rules_of_resource(&ra(), a);
            let _ = cb::load_rules_of_resource(&rb(), keep.2.clone());
        } else if per_resource {
            let _ = cb::load_rules_of_resource(&ra(), a);
        } else {
            let mut all = a;
            for r in keep.2.iter() {
                all.push(r.clone());
            }
            if with_c {
                for r in cb_rules(rc(), "c", 0) {
                    all.push(r);
                }
            }
            cb::load_rules(all);
        }
    }
}

struct RtSlot {}
impl sentinel_core::base::BaseSlot for RtSlot {
    fn order(&self) -> u32 {
        1000
    }
}
impl sentinel_core::base::StatSlot for RtSlot {
    fn on_completed(&self, ctx: &mut sentinel_core::base::EntryContext) {
        let rt = sentinel_core::utils::curr_time_millis() - ctx.start_time();
        ctx.set_round_trip(rt);
    }
}

/// the slots a kind exercises (p7 == 1: the complete global chain)
fn chain_of(kind: i64, full: bool) -> Arc<sentinel_core::base::SlotChain> {
    use sentinel_core::verif::{slot_chain_of, slots};
    if full {
        return sentinel_core::api::global_slot_chain();
    }
    match kind {
        0 | 3 => slot_chain_of(slots::FLOW | slots::STAT_RESOURCE | slots::STAT_FLOW, None),
        1 => slot_chain_of(slots::FLOW | slots::STAT_FLOW, None),
        2 => slot_chain_of(slots::FLOW, None),
        4 | 5 => slot_chain_of(slots::HOTSPOT, None),
        6 => slot_chain_of(slots::HOTSPOT | slots::STAT_HOTSPOT, None),
        _ => slot_chain_of(slots::BREAKER | slots::STAT_BREAKER, Some(Arc::new(RtSlot {}))),
    }
}

fn enter(res: String, chain: &Arc<sentinel_core::base::SlotChain>) -> Result<EntryStrongPtr, Error> {
    let mut a: Vec<String> = Vec::new();
    a.push("v".into());
    EntryBuilder::new(res)
        .with_resource_type(ResourceType::Common)
        .with_traffic_type(TrafficType::Outbound)
        .with_args(Some(a))
        .with_slot_chain(chain.clone())
        .build()
}

/// shape: p0 = kind (0 flow default window, 1 flow private window, 2 flow throttling, 3 flow warm-up, 4 hotspot QPS reject, 5 hotspot throttling,
/// 6 hotspot concurrency, 7 circuit breaker), p1 = 1: reload through load-for-resource (else load-all, with resource C
/// appearing in the same call), p2 = steps before the reload, p3 = steps after it, p4 = 1: finally A's main rule is changed (threshold; 2: only the pace of a throttling rule),
/// p5 + 1 = threshold of the main QPS rule, p6 = bound on hash iterations that deviate from insertion order (0: unbounded), p7 = 1: complete global slot chain
pub fn c11_reload(s: Shape) {
    let kind = s.p[0];
    let per_res = s.p[1] == 1;
    let before = s.p[2] as usize;
    let after = s.p[3] as usize;
    let thr = 1 + s.p[5];
    if s.p[6] > 0 {
        vrt::order_deviations(s.p[6] as u32);
    }
    let mut t = vrt::any_u64("t0", T0 + 9000, T0 + 9499);
    clock::arm(t * 1_000_000);
    let mut keep = (Vec::new(), Vec::new(), Vec::new());
    let chain = chain_of(kind, s.p[7] == 1);
    load(kind, thr, per_res, true, false, 0, false, &mut keep);
    let mut open_a: Vec<EntryStrongPtr> = Vec::new();
    let mut open_b: Vec<EntryStrongPtr> = Vec::new();
    for step in 0..(before + after) {
        if step == before {
            load(kind, thr, per_res, false, true, 0, !per_res, &mut keep);
            vrt::cover("reloaded");
        }
        if kind == 3 {
            // the warm-up refill multiplies the elapsed time in floating point: gaps from a small set
            let g = vrt::any_u64("gap", 0, 2);
            t += vrt::ite_u64(g == 0, 0, vrt::ite_u64(g == 1, 400, 1000));
        } else {
            t += vrt::any_u64("gap", 0, 600);
        }
        clock::set_ns(t * 1_000_000);
        let ea = enter(ra(), &chain);
        let wait_a = clock::now_ns().unwrap() - t * 1_000_000;
        clock::set_ns(t * 1_000_000);
        let eb = enter(rb(), &chain);
        let wait_b = clock::now_ns().unwrap() - t * 1_000_000;
        clock::set_ns(t * 1_000_000);
        vrt::check(ea.is_ok() == eb.is_ok(), "C11:decision-differs-from-the-untouched-twin");
        vrt::check(wait_a == wait_b, "C11:wait-differs-from-the-untouched-twin");
        if ea.is_err() {
            vrt::cover("blocked");
        }
        if let (Ok(a), Ok(b)) = (ea, eb) {
            // what happens to the admitted pair: exit / exit with an error (breakers) / stay in flight (concurrency)
            let then = match kind {
                7 => vrt::any_u32("then", 0, 1),
                6 => 2 * vrt::any_u32("then", 0, 1),
                _ => 0,
            };
            match then {
                0 => {
                    a.exit();
                    b.exit();
                }
                1 => {
                    a.set_err(Error::msg("x"));
                    a.exit();
                    b.set_err(Error::msg("x"));
                    b.exit();
                }
                _ => {
                    open_a.push(a);
                    open_b.push(b);
                }
            }
        }
    }
    if s.p[4] == 1 {
        // a changed rule (threshold) takes effect on the very next entry
        load(kind, thr, per_res, false, false, 1, false, &mut keep);
        let ea = enter(ra(), &chain);
        vrt::cover("changed");
        if kind == 7 {
            // the changed breaker rule (threshold 5) starts closed, whatever the old breaker's state was
            vrt::check(ea.is_ok(), "C11:changed-rule-not-in-effect");
        } else if kind != 3 {
            vrt::check(ea.is_err(), "C11:changed-rule-not-in-effect");
        }
        if let Ok(e) = ea {
            e.exit();
        }
    }
    if s.p[4] == 2 && (kind == 2 || kind == 5) {
        // only the pace of the throttling rule changes (one per 10 s instead of one per second): an entry 1.5 s
        // after an admitted one would now have to wait 8.5 s, far beyond the queueing limit
        load(kind, thr, per_res, false, false, 2, false, &mut keep);
        t += 2_000;
        clock::set_ns(t * 1_000_000);
        let e1 = enter(ra(), &chain);
        vrt::check(e1.is_ok(), "C11:changed-rule-rejects-a-lonely-entry");
        if let Ok(e) = e1 {
            e.exit();
        }
        t = clock::now_ns().unwrap() / 1_000_000 + 1_500;
        clock::set_ns(t * 1_000_000);
        let e2 = enter(ra(), &chain);
        vrt::cover("changed");
        vrt::check(e2.is_err(), "C11:changed-rule-not-in-effect");
        if let Ok(e) = e2 {
            e.exit();
        }
    }
    for e in open_a {
        e.exit();
    }
    for e in open_b {
        e.exit();
    }
}
