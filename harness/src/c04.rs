//! C04 — every entry is accounted exactly once: pass xor block, completion, in-flight.
use crate::util::T0;
use crate::{vrt, Shape};
use sentinel_core::api::EntryBuilder;
use sentinel_core::base::{ConcurrencyStat, EntryStrongPtr, MetricEvent, ReadStat, ResourceType, TrafficType};
use sentinel_core::stat::{get_resource_node, inbound_node};
use sentinel_core::verif::clock;
use sentinel_core::{flow, isolation};
use std::sync::Arc;

struct Ev {
    t: u64,
    res: usize,
    inbound: bool,
    kind: u8, // 0 pass, 1 block, 2 complete
    n: u64,
    rt: u64,
}

fn window_sum(evs: &[Ev], now: u64, res: Option<usize>, kind: u8, rt: bool) -> u64 {
    // default metric window: 2 buckets of 500 ms ending at the bucket of `now` (branch-free on symbolic values)
    let cur = now - now % 500;
    let mut s = 0;
    for e in evs {
        let b = e.t - e.t % 500;
        let in_win = (b + 1000 > cur) & (b <= cur);
        let sel = match res {
            Some(r) => e.res == r,
            None => e.inbound,
        };
        if sel && e.kind == kind {
            s += vrt::ite_u64(in_win, if rt { e.rt } else { e.n }, 0);
        }
    }
    s
}

/// shape: p0 = op count, p1 = 1 if a flow rule (threshold symbolic) is loaded on r0 (2: a throttling rule, so that entries queue;
/// 3: a system rule instead, so that inbound entries are rejected by the system slot), p2 = isolation threshold on r1 (0 = none)
pub fn c04_accounting(s: Shape) {
    let ops = s.p[0] as usize;
    let names = [String::from("c04-in"), String::from("c04-out")];
    let mut t = vrt::any_u64("t0", T0 + 9000, T0 + 9499);
    clock::arm(t * 1_000_000);
    if s.p[1] == 3 {
        // a system rule (at most one inbound entry in flight): inbound entries are rejected by the system slot
        sentinel_core::system::load_rules(crate::util::vec1(Arc::new(sentinel_core::system::Rule {
            id: "s".into(),
            metric_type: sentinel_core::system::MetricType::Concurrency,
            threshold: 1.0,
            strategy: sentinel_core::system::AdaptiveStrategy::NoAdaptive,
        })));
    }
    let thr = if s.p[1] == 2 {
        // a throttling rule (10 per second, queueing up to 500 ms): entries that are made to wait are passes too
        flow::load_rules(crate::util::vec1(Arc::new(flow::Rule {
            id: "f".into(),
            resource: names[0].clone(),
            threshold: 10.0,
            control_strategy: flow::ControlStrategy::Throttling,
            max_queueing_time_ms: 500,
            ..Default::default()
        })));
        10
    } else if s.p[1] == 1 {
        let thr = vrt::any_u64("thr", 0, 4);
        flow::load_rules(crate::util::vec1(Arc::new(flow::Rule {
            id: "f".into(),
            resource: names[0].clone(),
            threshold: thr as f64,
            ..Default::default()
        })));
        thr
    } else {
        1000
    };
    let _ = thr;
    if s.p[2] != 0 {
        isolation::load_rules(crate::util::vec1(Arc::new(isolation::Rule {
            id: "i".into(),
            resource: names[1].clone(),
            threshold: s.p[2] as u32,
            ..Default::default()
        })));
    }
    let mut evs: Vec<Ev> = Vec::new();
    let mut open: Vec<(EntryStrongPtr, usize, u64, u64)> = Vec::new(); // entry, res, batch, start
    let mut inflight = [0u32; 2];
    for step in 0..ops {
        let gap = vrt::any_u64("gap", 0, if s.p[1] == 2 { 300 } else { 1200 });
        t += gap;
        clock::set_ns(t * 1_000_000);
        let do_exit = !open.is_empty() && vrt::any_bool("exit");
        if do_exit {
            let idx = if open.len() > 1 && vrt::any_bool("second") { 1 } else { 0 };
            let (e, r, n, st) = open.remove(idx);
            e.exit();
            evs.push(Ev { t, res: r, inbound: r == 0, kind: 2, n, rt: t - st });
            inflight[r] -= 1;
        } else {
            let r = if s.p[1] != 2 && vrt::any_bool("res") { 1 } else { 0 };
            let n = vrt::any_u64("batch", 1, 3);
            let b = EntryBuilder::new(names[r].clone())
                .with_resource_type(ResourceType::Common)
                .with_traffic_type(if r == 0 { TrafficType::Inbound } else { TrafficType::Outbound })
                .with_batch_count(n as u32);
            let arrived = t;
            let built = b.build();
            if s.p[1] == 2 {
                // a queued entry was held: the clock moved, and the pass is recorded when the wait is over
                let now = clock::now_ns().unwrap() / 1_000_000;
                if now > t {
                    vrt::cover("queued");
                }
                t = now;
            }
            match built {
                Ok(e) => {
                    vrt::cover("pass");
                    evs.push(Ev { t, res: r, inbound: r == 0, kind: 0, n, rt: 0 });
                    inflight[r] += 1;
                    open.push((e, r, n, arrived));
                }
                Err(_) => {
                    vrt::cover("block");
                    evs.push(Ev { t, res: r, inbound: r == 0, kind: 1, n, rt: 0 });
                }
            }
        }
        // in-flight counts are compared after every operation, window sums after the last one
        // (p3 != 0: after every operation)
        for r in 0..2 {
            if let Some(node) = get_resource_node(&names[r]) {
                vrt::check(node.current_concurrency() == inflight[r], "C04:inflight");
            }
        }
        vrt::check(inbound_node().current_concurrency() == inflight[0], "C04:inbound-inflight");
        if s.p[3] == 0 && step + 1 != ops {
            continue;
        }
        for r in 0..2 {
            if let Some(node) = get_resource_node(&names[r]) {
                vrt::check(node.current_concurrency() == inflight[r], "C04:inflight");
                vrt::check(node.sum(MetricEvent::Pass) == window_sum(&evs, t, Some(r), 0, false), "C04:pass-sum");
                vrt::check(node.sum(MetricEvent::Block) == window_sum(&evs, t, Some(r), 1, false), "C04:block-sum");
                vrt::check(node.sum(MetricEvent::Complete) == window_sum(&evs, t, Some(r), 2, false), "C04:complete-sum");
                vrt::check(node.sum(MetricEvent::Rt) == window_sum(&evs, t, Some(r), 2, true), "C04:rt-sum");
            } else {
                let mut any = false;
                for e in &evs {
                    if e.res == r {
                        any = true;
                    }
                }
                vrt::check(!any, "C04:node-missing");
            }
        }
        let g = inbound_node();
        vrt::check(g.current_concurrency() == inflight[0], "C04:inbound-inflight");
        vrt::check(g.sum(MetricEvent::Pass) == window_sum(&evs, t, None, 0, false), "C04:inbound-pass");
        vrt::check(g.sum(MetricEvent::Block) == window_sum(&evs, t, None, 1, false), "C04:inbound-block");
        vrt::check(g.sum(MetricEvent::Complete) == window_sum(&evs, t, None, 2, false), "C04:inbound-complete");
        vrt::check(g.sum(MetricEvent::Rt) == window_sum(&evs, t, None, 2, true), "C04:inbound-rt");
    }
    for (e, _, _, _) in open {
        e.exit();
    }
}
