//! C14 — concurrent entries share one statistics node, accounted without loss or excess.
use crate::util::T0;
use crate::{vrt, Shape};
use sentinel_core::api::EntryBuilder;
use sentinel_core::base::{ConcurrencyStat, EntryStrongPtr, MetricEvent, ReadStat, ResourceType, TrafficType};
use sentinel_core::stat::{get_resource_node, inbound_node};
use sentinel_core::verif::{clock, slot_chain_of, slots};
use std::sync::Arc;

/// shape: p0 = threads (2..3), p1 = build/exit pairs per thread (1..2), p2 = preemption bound, p3 = 1: the resource exists already,
/// p4 = bit i set: thread i exits its entries, p5 = 1: inbound traffic, p6 = 1: the clock steps into the next bucket after thread 0's first entry
pub fn c14_shared_node(s: Shape) {
    let nt = s.p[0] as usize;
    let per = s.p[1] as usize;
    let inbound = s.p[5] == 1;
    let res = String::from("c14");
    clock::arm((T0 + 9_100) * 1_000_000);
    let chain = slot_chain_of(slots::STAT_RESOURCE, None);
    let mk = |chain: &Arc<sentinel_core::base::SlotChain>, res: &String| {
        EntryBuilder::new(res.clone())
            .with_resource_type(ResourceType::Common)
            .with_traffic_type(if inbound { TrafficType::Inbound } else { TrafficType::Outbound })
            .with_slot_chain(chain.clone())
            .build()
            .unwrap()
    };
    let mut base_pass = 0u64;
    if s.p[3] == 1 {
        let e = mk(&chain, &res);
        e.exit();
        base_pass = 1;
    }
    let base_in = inbound_node().sum(MetricEvent::Pass);
    let base_in_conc = inbound_node().current_concurrency();
    vrt::threads(s.p[2] as u32);
    let mut hs = Vec::new();
    for i in 0..nt {
        let chain = chain.clone();
        let res = res.clone();
        let exits = (s.p[4] >> i) & 1 == 1;
        let step = s.p[6] == 1 && i == 0;
        hs.push(std::thread::spawn(move || {
            vrt::start_line(nt as u32);
            let mut kept: Vec<EntryStrongPtr> = Vec::new();
            for j in 0..per {
                let e = EntryBuilder::new(res.clone())
                    .with_resource_type(ResourceType::Common)
                    .with_traffic_type(if inbound { TrafficType::Inbound } else { TrafficType::Outbound })
                    .with_slot_chain(chain.clone())
                    .build()
                    .unwrap();
                if step && j == 0 {
                    // the clock moves into the next bucket while other threads are active
                    clock::set_ns((T0 + 9_600) * 1_000_000);
                }
                if exits {
                    e.exit();
                } else {
                    kept.push(e);
                }
            }
            kept
        }));
    }
    let mut open: Vec<EntryStrongPtr> = Vec::new();
    for h in hs {
        let mut k = h.join().unwrap();
        open.append(&mut k);
    }
    vrt::cover("joined");
    let node = get_resource_node(&res).unwrap();
    // every entry was accounted on the node that the storage hands out
    let mut n_exit = 0u64;
    for i in 0..nt {
        if (s.p[4] >> i) & 1 == 1 {
            n_exit += per as u64;
        }
    }
    let total = (nt * per) as u64;
    vrt::check(node.current_concurrency() as u64 == total - n_exit, "C14:inflight");
    for e in open.iter() {
        let ctx = e.context();
        let ctx = ctx.read().unwrap();
        let n = ctx.stat_node().unwrap();
        vrt::check(Arc::as_ptr(&n) as *const u8 == Arc::as_ptr(&node) as *const u8, "C14:entries-on-different-nodes");
    }
    if s.p[6] == 0 {
        vrt::check(node.sum(MetricEvent::Pass) == total + base_pass, "C14:pass-total");
        vrt::check(node.sum(MetricEvent::Complete) == n_exit + base_pass, "C14:complete-total");
        if inbound {
            vrt::check(inbound_node().sum(MetricEvent::Pass) == base_in + total, "C14:inbound-pass-total");
            vrt::check(inbound_node().current_concurrency() as u64 == base_in_conc as u64 + total - n_exit, "C14:inbound-inflight");
        }
    } else {
        // across a roll-over events may be missed but never invented
        vrt::check(node.sum(MetricEvent::Pass) <= total + base_pass, "C14:pass-excess");
        vrt::check(node.sum(MetricEvent::Complete) <= n_exit + base_pass, "C14:complete-excess");
    }
    for e in open {
        e.exit();
    }
}
