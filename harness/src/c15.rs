//! C15 — concurrent rule updates and entries never deadlock, panic or poison a manager.
use crate::c10::{CbF, Fam, FlowF, HotF, IsoF, SysF};
use crate::util::T0;
use crate::{vrt, Shape};
use sentinel_core::api::EntryBuilder;
use sentinel_core::base::Snapshot;
use sentinel_core::circuitbreaker as cb;
use sentinel_core::circuitbreaker::{State, StateChangeListener};
use sentinel_core::verif::clock;
use std::sync::Arc;

fn r1() -> String {
    "c10-r1".into()
}

/// a listener that reads the manager back from inside its callbacks (allowed: read-only functions)
struct ReadingListener {}
impl ReadingListener {
    fn look(&self) {
        let _ = cb::get_rules_of_resource(&r1());
        let _ = cb::get_breakers_of_resource(&r1());
    }
}
impl StateChangeListener for ReadingListener {
    fn on_transform_to_closed(&self, _p: State, _r: Arc<cb::Rule>) {
        self.look()
    }
    fn on_transform_to_open(&self, _p: State, _r: Arc<cb::Rule>, _s: Option<Arc<Snapshot>>) {
        self.look()
    }
    fn on_transform_to_half_open(&self, _p: State, _r: Arc<cb::Rule>) {
        self.look()
    }
    fn on_circuit_breaker_drop(&self, _p: State, _r: Arc<cb::Rule>) {
        self.look()
    }
}

fn op<F: Fam>(k: i64, pool: &[Arc<F::R>]) {
    let mut v = Vec::new();
    match k {
        0 => {
            v.push(pool[0].clone());
            let _ = F::load(v);
        }
        1 => {
            v.push(pool[0].clone());
            v.push(pool[1].clone());
            v.push(pool[2].clone());
            let _ = F::load(v);
        }
        2 => {
            v.push(pool[1].clone());
            let _ = F::load_res(&r1(), v);
        }
        3 => {
            let _ = F::append(pool[1].clone());
        }
        4 => F::clear(),
        5 => {
            let _ = F::clear_res(&r1());
        }
        6 => {
            let _ = F::get();
        }
        7 => {
            let _ = F::get_res(&r1());
        }
        _ => {
            if let Ok(e) = EntryBuilder::new(r1()).build() {
                e.exit();
            }
        }
    }
}

fn run<F: Fam>(s: Shape)
where
    F::R: Send + Sync + 'static,
{
    clock::arm(T0 * 1_000_000);
    let pool = F::pool();
    if s.p[5] == 1 {
        cb::clear_state_change_listeners();
        cb::register_state_change_listeners(crate::util::vec1(Arc::new(ReadingListener {}) as Arc<dyn StateChangeListener>));
    }
    // something is loaded already (so that replacing it drops controllers / breakers)
    op::<F>(0, &pool);
    if s.p[5] == 1 {
        // one entry, so that the resource node and the breaker statistics exist
        op::<F>(8, &pool);
    }
    if s.p[6] > 0 {
        vrt::order_deviations(s.p[6] as u32 - 1);
    }
    vrt::threads(s.p[3] as u32);
    let (a, b) = (s.p[1], s.p[2]);
    let (p1, p2) = (pool.clone(), pool.clone());
    let nthreads = if s.p[4] == 1 { 3 } else { 2 };
    let h1 = std::thread::spawn(move || {
        vrt::start_line(nthreads);
        op::<F>(a, &p1)
    });
    let h2 = std::thread::spawn(move || {
        vrt::start_line(nthreads);
        op::<F>(b, &p2)
    });
    let h3 = if s.p[4] == 1 {
        let p3 = pool.clone();
        Some(std::thread::spawn(move || {
            vrt::start_line(nthreads);
            op::<F>(8, &p3)
        }))
    } else {
        None
    };
    let ok1 = h1.join().is_ok();
    let ok2 = h2.join().is_ok();
    let ok3 = match h3 {
        Some(h) => h.join().is_ok(),
        None => true,
    };
    vrt::cover("joined");
    vrt::check(ok1 && ok2 && ok3, "C15:a-call-panicked");
    // every manager still answers queries and accepts updates
    let _ = F::get();
    let _ = F::get_res(&r1());
    F::clear();
    let _ = F::append(pool[0].clone());
    vrt::unordered(true);
    let got = F::get();
    vrt::unordered(false);
    vrt::check(got.len() == 1, "C15:manager-unusable-afterwards");
}

/// shape: p0 = family (0 flow, 1 circuit breaker, 2 hotspot, 3 isolation, 4 system), p1/p2 = operations of the two threads
/// (0 load-all {A1}, 1 load-all {A1,A2,B1}, 2 load-for-resource r1 {A2}, 3 append A2, 4 clear, 5 clear-resource r1, 6 get_rules,
/// 7 get_rules_of_resource, 8 build+exit an entry on r1), p3 = preemption bound, p4 = 1: a third thread builds/exits an entry,
/// p5 = 1: (circuit breaker) a listener whose callbacks read the manager, p6 = 1 + bound on hash iterations of the racing
/// operations that deviate from insertion order (0: unbounded)
pub fn c15_managers(s: Shape) {
    match s.p[0] {
        0 => run::<FlowF>(s),
        1 => run::<CbF>(s),
        2 => run::<HotF>(s),
        3 => run::<IsoF>(s),
        _ => run::<SysF>(s),
    }
}
