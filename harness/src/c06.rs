//! C06 — hotspot QPS limiting is a per-parameter token bucket with no cross-talk.
use crate::util::T0;
use crate::{vrt, Shape};
use sentinel_core::api::EntryBuilder;
use sentinel_core::base::{ResourceType, TrafficType};
use sentinel_core::hotspot;
use sentinel_core::verif::clock;
use std::collections::HashMap;
use std::sync::Arc;

/// shape: p0 = q (tokens per duration), p1 = burst b, p2 = duration d (s), p3 = override for value 0 (-1: none),
/// p4 = k requests, p5 = distinct values (1..3)
pub fn c06_hotspot_qps(s: Shape) {
    let q = s.p[0] as u64;
    let b = s.p[1] as u64;
    let d = s.p[2] as u64;
    let ovr = s.p[3];
    let k = s.p[4] as usize;
    let nv = s.p[5] as usize;
    let res = String::from("c06");
    let mut specific: HashMap<String, u64> = HashMap::new();
    if ovr >= 0 {
        specific.insert(crate::util::name("v", 0), ovr as u64);
    }
    let rule = Arc::new(hotspot::Rule {
        id: "h0".into(),
        resource: res.clone(),
        metric_type: hotspot::MetricType::QPS,
        control_strategy: hotspot::ControlStrategy::Reject,
        param_index: 0,
        threshold: q,
        burst_count: b,
        duration_in_sec: d,
        specific_items: specific,
        ..Default::default()
    });
    let mut t = vrt::any_u64("t0", T0, T0 + 999);
    clock::arm(t * 1_000_000);
    hotspot::load_rules(crate::util::vec1(rule));
    let chain = crate::util::chain_for(&s, sentinel_core::verif::slots::HOTSPOT);
    // reference buckets
    let mut seen = [false; 3];
    let mut tokens = [0u64; 3];
    let mut last = [0u64; 3];
    let mut first = [0u64; 3];
    let mut admitted = [0u64; 3];
    for _ in 0..k {
        let gap = vrt::any_u64("gap", 0, d * 2500);
        t += gap;
        clock::set_ns(t * 1_000_000);
        let v = vrt::any_usize("value", 0, nv - 1);
        let n = vrt::any_u64("batch", 1, 3);
        let qv = if ovr >= 0 && v == 0 { ovr as u64 } else { q };
        let maxc = qv + b;
        // ---- reference decision for value v
        let want;
        if qv == 0 || n > maxc {
            want = false;
        } else if !seen[v] {
            seen[v] = true;
            first[v] = t;
            last[v] = t;
            tokens[v] = maxc - n;
            want = true;
        } else {
            let pass = t - last[v];
            if pass > d * 1000 {
                let add = pass * qv / (d * 1000);
                let avail = if add + tokens[v] > maxc { maxc } else { add + tokens[v] };
                if avail >= n {
                    tokens[v] = avail - n;
                    last[v] = t;
                    want = true;
                } else {
                    want = false;
                }
            } else if tokens[v] >= n {
                tokens[v] -= n;
                want = true;
            } else {
                want = false;
            }
        }
        let mut a: Vec<String> = Vec::new();
        a.push(crate::util::name("v", v));
        let got = EntryBuilder::new(res.clone())
            .with_resource_type(ResourceType::Common)
            .with_traffic_type(TrafficType::Outbound)
            .with_batch_count(n as u32)
            .with_args(Some(a))
            .with_slot_chain(chain.clone())
            .build();
        match got {
            Ok(e) => {
                vrt::cover("admitted");
                vrt::check(want, "C06:admitted-without-tokens");
                admitted[v] += n;
                // implementation-independent bound: q + b + q*(t - first)/d
                let bound = qv + b + qv * (t - first[v]) / (d * 1000) + 1;
                vrt::check(admitted[v] <= bound, "C06:token-bucket-bound");
                e.exit();
            }
            Err(_) => {
                vrt::cover("rejected");
                vrt::check(!want, "C06:rejected-with-tokens");
            }
        }
    }
}
