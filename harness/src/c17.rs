//! C17 — accepted configuration is usable and is the same for every thread.
use crate::util::T0;
use crate::{vrt, Shape};
use sentinel_core::base::{MetricEvent, ReadStat, ResourceType, WriteStat};
use sentinel_core::config::{self, ConfigEntity};
use sentinel_core::stat::ResourceNode;
use sentinel_core::verif::clock;

const COUNTS: [u32; 7] = [0, 1, 2, 3, 4, 6, 20];
const INTERVALS: [u32; 6] = [0, 1, 500, 1000, 1500, 10000];

fn entity(sct: u32, imt: u32, sc: u32, im: u32) -> ConfigEntity {
    let mut e = ConfigEntity::new();
    e.config.stat.sample_count_total = sct;
    e.config.stat.interval_ms_total = imt;
    e.config.stat.sample_count = sc;
    e.config.stat.interval_ms = im;
    e
}

/// reference: can a read window (sc buckets over im ms) be served by a ring of sct buckets over imt ms?
fn servable(sct: u64, imt: u64, sc: u64, im: u64) -> bool {
    if sc == 0 || im == 0 || im % sc != 0 || sct == 0 || imt == 0 || imt % sct != 0 {
        return false;
    }
    let b = im / sc;
    let pb = imt / sct;
    imt % im == 0 && b % pb == 0
}

/// (a) validity => usability.  shape: p0 = index of sample_count_total, p1 = index of interval_ms_total;
/// the default metric's (sample_count, interval_ms) are chosen symbolically from the same grids
pub fn c17_geometry(s: Shape) {
    let sct = COUNTS[s.p[0] as usize];
    let imt = INTERVALS[s.p[1] as usize];
    let sc = COUNTS[vrt::any_usize("sc", 0, 6)];
    let im = INTERVALS[vrt::any_usize("im", 0, 5)];
    let mut t = vrt::any_u64("t0", T0 + 9000, T0 + 9000 + 2 * imt as u64);
    clock::arm(t * 1_000_000);
    let e = entity(sct, imt, sc, im);
    let ok = e.check().is_ok();
    let want = servable(sct as u64, imt as u64, sc as u64, im as u64);
    vrt::check(ok == want, "C17:validation-disagrees-with-servability");
    if !ok {
        vrt::cover("rejected");
        // rejected at initialisation as well (returns before anything is started)
        vrt::check(sentinel_core::api::init_with_config(e).is_err(), "C17:unservable-config-initialised");
        return;
    }
    vrt::cover("accepted");
    config::reset_global_config(e);
    // every resource gets working statistics with the configured geometry
    let node = ResourceNode::new("c17".into(), ResourceType::Common);
    let l = (imt / sct) as u64; // bucket length of the global ring
    let n = vrt::any_u64("count", 1, 5);
    node.add_count(MetricEvent::Pass, n);
    let gap = vrt::any_u64("gap", 0, 2 * im as u64);
    let t1 = t;
    t += gap;
    clock::set_ns(t * 1_000_000);
    let got = node.sum(MetricEvent::Pass);
    let cur = t - t % l;
    let b = t1 - t1 % l;
    let want_sum = vrt::ite_u64((b + im as u64 > cur) & (b <= cur), n, 0);
    vrt::check(got == want_sum, "C17:window-geometry-not-as-configured");
}

/// (b) the configuration in effect is the same for every thread.  shape: p0/p1 = indices of a valid custom
/// default-metric geometry (sample_count, interval_ms) different from the built-in default
pub fn c17_threads(s: Shape) {
    let sc = COUNTS[s.p[0] as usize];
    let im = INTERVALS[s.p[1] as usize];
    clock::arm(T0 * 1_000_000);
    let e = entity(20, 10000, sc, im);
    vrt::assume(e.check().is_ok());
    config::reset_global_config(e);
    let here = (config::metric_stat_sample_count(), config::metric_stat_interval_ms());
    vrt::check(here == (sc, im), "C17:config-not-in-effect-in-initialising-thread");
    let other = std::thread::spawn(|| (config::metric_stat_sample_count(), config::metric_stat_interval_ms()))
        .join()
        .unwrap();
    vrt::cover("other-thread");
    vrt::check(other == (sc, im), "C17:config-differs-between-threads");
}
