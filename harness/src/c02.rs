//! C02 — sliding-window statistics report exactly the events inside the window.
use crate::{vrt, Shape};
use sentinel_core::base::MetricEvent;
use sentinel_core::stat::{BucketLeapArray, SlidingWindowMetric};
use std::sync::Arc;

/// shape: p0 = ring buckets N, p1 = ring interval ms (N*L), p2 = read window buckets n',
/// p3 = read interval ms, p4 = number of write steps k
pub fn c02_window(s: Shape) {
    let n = s.p[0] as u32;
    let ring_ms = s.p[1] as u32;
    let rn = s.p[2] as u32;
    let r_ms = s.p[3] as u32;
    let k = s.p[4] as usize;
    let l = (ring_ms / n) as u64;
    let arr = Arc::new(BucketLeapArray::new(n, ring_ms).unwrap());
    let m = SlidingWindowMetric::new(rn, r_ms, arr.clone()).unwrap();
    let span = 3 * ring_ms as u64;
    let mut t = vrt::any_u64("t0", 1_000_000_000_000, 1_000_000_000_000 + 10 * ring_ms as u64);
    let mut ev_t: [u64; 8] = [0; 8];
    let mut ev_c: [u64; 8] = [0; 8];
    for i in 0..k {
        let gap = vrt::any_u64("gap", 0, span);
        t += gap;
        let c = vrt::any_u64("cnt", 0, 7);
        arr.add_count_with_time(t, MetricEvent::Pass, c).unwrap();
        ev_t[i] = t;
        ev_c[i] = c;
    }
    let rgap = vrt::any_u64("rgap", 0, span);
    let now = t + rgap;
    let got = m.sum_with_time(now, MetricEvent::Pass);
    // oracle: buckets whose start lies in (cur - I', cur]
    let cur = now - now % l;
    let mut want = 0u64;
    for i in 0..k {
        let b = ev_t[i] - ev_t[i] % l;
        if b + (r_ms as u64) > cur && b <= cur {
            want += ev_c[i];
        }
    }
    vrt::observe("got", got as i64);
    vrt::check(got == want, "C02:sum");
}
