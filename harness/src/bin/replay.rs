//! replay <scenario> <p0,p1,...> <v0,v1,...|-> [--random <seed>]
//! exit 0: run completed, all checks held; 3: a check failed; 4: assume false /
//! replay values do not fit; 101: panic.
use harness::{scenario, vrt, Shape};

fn main() {
    let a: Vec<String> = std::env::args().collect();
    if a.len() < 4 {
        eprintln!("usage: replay <scenario> <shape> <values> [--random seed]");
        std::process::exit(2);
    }
    let f = scenario(&a[1]).unwrap_or_else(|| {
        eprintln!("unknown scenario {}", a[1]);
        std::process::exit(2)
    });
    let mut p = [0i64; 8];
    for (i, s) in a[2].split(',').filter(|s| !s.is_empty()).enumerate() {
        p[i] = s.parse().unwrap();
    }
    let values: Vec<i128> = if a[3] == "-" { vec![] } else { a[3].split(',').filter(|s| !s.is_empty()).map(|s| s.parse().unwrap()).collect() };
    let random = a.iter().position(|x| x == "--random").map(|i| a[i + 1].parse::<u64>().unwrap() | 1);
    if let Ok(seed) = std::env::var("VERIF_DELAY_SEED") {
        // delay injection at the library's sync points (native stress replay of schedule-dependent findings)
        sentinel_core::verif::sync::set_delay_seed(seed.parse::<u64>().unwrap_or(1) | 1);
    }
    vrt::install(values, random);
    f(Shape { p });
    println!("DONE");
    vrt::dump_and_exit(0);
}
