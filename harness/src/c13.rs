//! C13 — slot chain contract: ordered run, block iff a check blocked, one notification.
use crate::util::{block_code, T0};
use crate::{vrt, Shape};
use sentinel_core::api::EntryBuilder;
use sentinel_core::base::{
    BaseSlot, BlockError, BlockType, EntryContext, RuleCheckSlot, SlotChain, StatPrepareSlot, StatSlot, TokenResult,
};
use sentinel_core::verif::clock;
use std::sync::{Arc, Mutex};

type Log = Arc<Mutex<Vec<(u8, u32, i64)>>>; // (kind, slot id, payload)

struct Prep {
    id: u32,
    ord: u32,
    log: Log,
}
impl BaseSlot for Prep {
    fn order(&self) -> u32 {
        self.ord
    }
}
impl StatPrepareSlot for Prep {
    fn prepare(&self, _ctx: &mut EntryContext) {
        self.log.lock().unwrap().push((0, self.id, self.ord as i64));
    }
}

struct Chk {
    id: u32,
    ord: u32,
    res: u8, // 0 pass, 1 blocked(Other(id)), 2 wait(0)
    log: Log,
}
impl BaseSlot for Chk {
    fn order(&self) -> u32 {
        self.ord
    }
}
impl RuleCheckSlot for Chk {
    fn check(&self, _ctx: &mut EntryContext) -> TokenResult {
        self.log.lock().unwrap().push((1, self.id, self.ord as i64));
        match self.res {
            0 => TokenResult::new_pass(),
            1 => TokenResult::new_blocked(BlockType::Other(self.id as u8)),
            _ => TokenResult::new_should_wait(0),
        }
    }
}

struct Stat {
    id: u32,
    ord: u32,
    log: Log,
}
impl BaseSlot for Stat {
    fn order(&self) -> u32 {
        self.ord
    }
}
impl StatSlot for Stat {
    fn on_entry_pass(&self, _ctx: &EntryContext) {
        self.log.lock().unwrap().push((2, self.id, self.ord as i64));
    }
    fn on_entry_blocked(&self, _ctx: &EntryContext, e: BlockError) {
        self.log.lock().unwrap().push((3, self.id, block_code(e.block_type())));
    }
    fn on_completed(&self, _ctx: &mut EntryContext) {
        self.log.lock().unwrap().push((4, self.id, self.ord as i64));
    }
}

/// shape: p0 = prepare slots, p1 = check slots, p2 = stat slots (each 0..4)
pub fn c13_chain(s: Shape) {
    let (np, nc, ns) = (s.p[0] as u32, s.p[1] as u32, s.p[2] as u32);
    clock::arm(T0 * 1_000_000);
    let log: Log = Arc::new(Mutex::new(Vec::new()));
    let mut sc = SlotChain::new();
    for i in 0..np {
        let ord = vrt::any_u32("pord", 0, 3);
        sc.add_stat_prepare_slot(Arc::new(Prep { id: i, ord, log: log.clone() }));
    }
    let mut cres = [0u8; 4];
    for i in 0..nc {
        let ord = vrt::any_u32("cord", 0, 3);
        let res = vrt::any_u32("cres", 0, 2) as u8;
        cres[i as usize] = res;
        sc.add_rule_check_slot(Arc::new(Chk { id: i, ord, res, log: log.clone() }));
    }
    for i in 0..ns {
        let ord = vrt::any_u32("sord", 0, 3);
        sc.add_stat_slot(Arc::new(Stat { id: i, ord, log: log.clone() }));
    }
    let sc = Arc::new(sc);
    let mut any_block = false;
    for i in 0..nc as usize {
        if cres[i] == 1 {
            any_block = true;
        }
    }
    let r = EntryBuilder::new("c13".into()).with_slot_chain(sc).build();
    vrt::check(r.is_err() == any_block, "C13:blocked-iff-a-check-blocked");
    if any_block {
        vrt::cover("blocked");
    } else {
        vrt::cover("passed");
    }
    let after_build = log.lock().unwrap().len();
    if let Ok(e) = r {
        e.exit();
    }
    let l = log.lock().unwrap();
    // phases: all prepare, then checks, then stats(entry), then completions
    let mut phase = 0u8;
    let mut last_ord: i64 = -1;
    let (mut n0, mut n1, mut n2, mut n3, mut n4) = (0u32, 0u32, 0u32, 0u32, 0u32);
    let mut seen_stat = [0u8; 4];
    let mut seen_done = [0u8; 4];
    for (idx, (kind, id, payload)) in l.iter().enumerate() {
        let k = if *kind == 3 { 2 } else if *kind == 4 { 3 } else { *kind };
        vrt::check(k >= phase, "C13:phase-order");
        if k != phase {
            phase = k;
            last_ord = -1;
        }
        match *kind {
            0 => n0 += 1,
            1 => {
                n1 += 1;
                vrt::check(*payload >= last_ord, "C13:check-order");
                last_ord = *payload;
            }
            2 => {
                n2 += 1;
                seen_stat[*id as usize] += 1;
                vrt::check(!any_block, "C13:pass-notified-though-blocked");
            }
            3 => {
                n3 += 1;
                seen_stat[*id as usize] += 1;
                vrt::check(any_block, "C13:block-notified-though-passed");
                // the error delivered is one produced by a slot that blocked
                let mut produced = false;
                for c in 0..nc as usize {
                    if cres[c] == 1 && *payload == 100 + c as i64 {
                        produced = true;
                    }
                }
                vrt::check(produced, "C13:error-from-a-blocking-slot");
            }
            _ => {
                n4 += 1;
                seen_done[*id as usize] += 1;
                vrt::check(idx >= after_build, "C13:completion-before-exit");
            }
        }
    }
    vrt::check(n0 == np && n1 == nc, "C13:every-prepare-and-check-runs-once");
    vrt::check(n2 + n3 == ns, "C13:one-entry-notification-per-stat-slot");
    for i in 0..ns as usize {
        vrt::check(seen_stat[i] == 1, "C13:stat-slot-notified-exactly-once");
        vrt::check(seen_done[i] == if any_block { 0 } else { 1 }, "C13:completion-iff-passed");
    }
    let _ = n4;
    // stat slots in ascending order value within their phase
    let mut last: i64 = -1;
    for (kind, _, payload) in l.iter() {
        if *kind == 2 {
            vrt::check(*payload >= last, "C13:stat-order");
            last = *payload;
        }
    }
}
