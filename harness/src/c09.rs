//! C09 — system protection rejects inbound traffic exactly when a system metric trips.
use crate::util::{same_rule, Recorder, T0};
use crate::{vrt, Shape};
use sentinel_core::api::EntryBuilder;
use sentinel_core::base::{EntryStrongPtr, ResourceType, TrafficType};
use sentinel_core::system;
use sentinel_core::system_metric;
use sentinel_core::verif::{clock, slot_chain_of, slots};
use std::sync::atomic::Ordering;
use std::sync::Arc;

fn metric(k: i64) -> system::MetricType {
    match k {
        0 => system::MetricType::Load,
        1 => system::MetricType::AvgRT,
        2 => system::MetricType::Concurrency,
        3 => system::MetricType::InboundQPS,
        _ => system::MetricType::CpuUsage,
    }
}

/// shape: p0 = metric type of rule 1, p1 = strategy (0 NoAdaptive, 1 BBR), p2 = history length (inbound entries before the probe),
/// p3 = metric type of a second rule + 1 (0 = none), p4 = 1: BBR pattern, p5 = additional probes (each one decided and checked)
pub fn c09_system(s: Shape) {
    let nrules = if s.p[3] == 0 { 1 } else { 2 };
    let hist = s.p[2] as usize;
    let mut t = vrt::any_u64("t0", T0 + 9000, T0 + 9499);
    clock::arm(t * 1_000_000);
    // injected readings (quarters, so that every comparison is exact)
    let uses = |k: i64| s.p[0] == k || s.p[3] - 1 == k;
    let load4 = if uses(0) { vrt::any_u64("load4", 0, 4) } else { 1 };
    let cpu4 = if uses(4) { vrt::any_u64("cpu4", 0, 4) } else { 1 };
    let load = load4 as f64 / 4.0;
    let cpu = (cpu4 * 25) as f32;
    system_metric::verif_set_readings(load, cpu, 0);
    let mut rules = Vec::new();
    let mut kinds = [0i64; 2];
    let mut thr4 = [0u64; 2];
    for r in 0..nrules {
        kinds[r] = if r == 0 { s.p[0] } else { s.p[3] - 1 };
        // thresholds in quarters around the values the history can produce
        thr4[r] = vrt::any_u64("thr4", 0, if kinds[r] == 4 { 400 } else { 16 });
        let strategy = if s.p[1] == 0 { system::AdaptiveStrategy::NoAdaptive } else { system::AdaptiveStrategy::BBR };
        rules.push(Arc::new(system::Rule {
            id: crate::util::name("s", r),
            metric_type: metric(kinds[r]),
            threshold: thr4[r] as f64 / 4.0,
            strategy,
        }));
    }
    let rec = Recorder::new(9000);
    let chain = slot_chain_of(slots::SYSTEM | slots::STAT_RESOURCE, Some(rec.clone()));
    let res = String::from("c09-in");
    // ---- history of inbound traffic (no system rules yet, so all of it passes)
    let mut ev_pass_t: Vec<u64> = Vec::new();
    let mut ev_done_t: Vec<u64> = Vec::new();
    let mut ev_done_rt: Vec<u64> = Vec::new();
    let mut open: Vec<(EntryStrongPtr, u64)> = Vec::new();
    for i in 0..hist {
        t += vrt::any_u64("gap", 0, if s.p[4] == 1 { 100 } else { 600 });
        clock::set_ns(t * 1_000_000);
        let e = EntryBuilder::new(res.clone())
            .with_resource_type(ResourceType::Common)
            .with_traffic_type(TrafficType::Inbound)
            .with_slot_chain(chain.clone())
            .build()
            .unwrap();
        ev_pass_t.push(t);
        // p4 == 1: a fixed pattern (the first two entries complete, the others stay in flight) with a wider
        // spread of response times, aimed at the capacity estimate of the BBR strategy
        let completes = if s.p[4] == 1 { i < 2 } else { vrt::any_bool("complete") };
        if completes {
            let rt = match vrt::any_u32("rt", 0, 2) {
                0 => if s.p[4] == 1 { 1u64 } else { 10u64 },
                1 => 100,
                _ => if s.p[4] == 1 { 1000 } else { 250 },
            };
            t += rt;
            clock::set_ns(t * 1_000_000);
            e.exit();
            ev_done_t.push(t);
            ev_done_rt.push(rt);
        } else {
            open.push((e, t));
        }
    }
    system::load_rules(rules.clone());
    // p5 + 1 probes; an admitted inbound probe completes at once and joins the ledger, a rejected one must leave no trace
    for _probe in 0..(1 + s.p[5] as usize) {
        t += vrt::any_u64("gap", 0, 600);
        clock::set_ns(t * 1_000_000);
        // ---- what the system slot observes now, recomputed from the ledger
        let cur = t - t % 500;
        let mut passes = 0u64;
        for &p in ev_pass_t.iter() {
            let b = p - p % 500;
            passes += vrt::ite_u64((b + 1000 > cur) & (b <= cur), 1, 0);
        }
        let (mut done, mut rt_sum) = (0u64, 0u64);
        let mut min_rt = 60000u64;
        let mut per_bucket = [0u64; 2]; // completes in the current / the previous bucket
        for i in 0..ev_done_t.len() {
            let b = ev_done_t[i] - ev_done_t[i] % 500;
            let inw = (b + 1000 > cur) & (b <= cur);
            done += vrt::ite_u64(inw, 1, 0);
            rt_sum += vrt::ite_u64(inw, ev_done_rt[i], 0);
            min_rt = vrt::ite_u64(inw & (ev_done_rt[i] < min_rt), ev_done_rt[i], min_rt);
            per_bucket[0] += vrt::ite_u64(b == cur, 1, 0);
            per_bucket[1] += vrt::ite_u64(b + 500 == cur, 1, 0);
        }
        let conc = open.len() as u64;
        let max_complete = vrt::ite_u64(per_bucket[0] > per_bucket[1], per_bucket[0], per_bucket[1]);
        // BBR lets the request through unless more than one request is in flight and they exceed the capacity
        // estimate: best completed-per-second rate (max per bucket x 2 buckets/s) x min rt / 1000
        let bbr_pass = !((conc > 1) & (conc * 1000 > max_complete * 2 * min_rt));
        let inbound = vrt::any_bool("inbound");
        let mut want_block = false;
        let mut trips = [false; 2];
        for r in 0..nrules {
            let thr = thr4[r];
            let trip = match kinds[r] {
                0 => (load4 > thr) & ((s.p[1] == 0) | !bbr_pass),
                1 => (done > 0) & (rt_sum * 4 >= thr * done) | ((done == 0) & (thr == 0)),
                2 => conc * 4 >= thr,
                3 => passes * 4 >= thr,
                _ => (cpu4 * 100 > thr) & ((s.p[1] == 0) | !bbr_pass),
            };
            trips[r] = trip;
            want_block = want_block | trip;
        }
        let blocks_before = rec.blocks.load(Ordering::SeqCst);
        let got = EntryBuilder::new(res.clone())
            .with_resource_type(ResourceType::Common)
            .with_traffic_type(if inbound { TrafficType::Inbound } else { TrafficType::Outbound })
            .with_slot_chain(chain.clone())
            .build();
        match got {
            Ok(e) => {
                vrt::cover("admitted");
                vrt::check(!inbound | !want_block, "C09:admitted-though-a-metric-trips");
                e.exit();
                if inbound {
                    ev_pass_t.push(t);
                    ev_done_t.push(t);
                    ev_done_rt.push(0);
                }
            }
            Err(_) => {
                vrt::cover("rejected");
                vrt::check(inbound, "C09:outbound-entry-rejected");
                vrt::check(want_block, "C09:rejected-though-no-metric-trips");
                vrt::check(rec.blocks.load(Ordering::SeqCst) == blocks_before + 1, "C09:block-notified-once");
                vrt::check(rec.last_block.load(Ordering::SeqCst) == 4, "C09:block-type-system");
                let mut named = false;
                for r in 0..nrules {
                    if same_rule(&rec, &rules[r]) {
                        named = named | trips[r];
                    }
                }
                vrt::check(named, "C09:triggering-rule");
            }
        }
    }
    for (e, _) in open {
        e.exit();
    }
    system::clear_rules();
}
