//! Tiny runtime shared by every scenario. Under `mirsym` the functions of this
//! module are intercepted by name (they are on the stop list, their bodies are never
//! interpreted); natively they read the replay values.
use std::collections::VecDeque;
use std::sync::Mutex;

pub struct State {
    pub values: VecDeque<i128>,
    pub random: Option<u64>,
    pub observations: Vec<(String, i128)>,
    pub covers: Vec<String>,
    pub checks: u64,
    pub drawn: Vec<(String, i128)>,
}

pub static STATE: Mutex<Option<State>> = Mutex::new(None);

pub fn install(values: Vec<i128>, random: Option<u64>) {
    *STATE.lock().unwrap() = Some(State {
        values: values.into(),
        random,
        observations: vec![],
        covers: vec![],
        checks: 0,
        drawn: vec![],
    });
}

fn draw(tag: &'static str, lo: i128, hi: i128) -> i128 {
    let mut g = STATE.lock().unwrap();
    let st = g.as_mut().expect("vrt not installed");
    let v = match st.values.pop_front() {
        Some(v) => v,
        None => match st.random.as_mut() {
            Some(s) => {
                // xorshift64*
                *s ^= *s >> 12;
                *s ^= *s << 25;
                *s ^= *s >> 27;
                let r = s.wrapping_mul(0x2545F4914F6CDD1D);
                // bias towards the ends of the range
                let span = (hi - lo + 1) as u128;
                match r % 8 {
                    0 => lo,
                    1 => hi,
                    _ => lo + ((r >> 3) as u128 % span) as i128,
                }
            }
            None => {
                println!("REPLAY-EXHAUSTED {}", tag);
                std::process::exit(4);
            }
        },
    };
    if v < lo || v > hi {
        println!("REPLAY-OUT-OF-RANGE {} {} not in [{},{}]", tag, v, lo, hi);
        std::process::exit(4);
    }
    st.drawn.push((tag.to_string(), v));
    v
}

#[inline(never)]
pub fn any_u64(tag: &'static str, lo: u64, hi: u64) -> u64 {
    draw(tag, lo as i128, hi as i128) as u64
}
#[inline(never)]
pub fn any_u32(tag: &'static str, lo: u32, hi: u32) -> u32 {
    draw(tag, lo as i128, hi as i128) as u32
}
#[inline(never)]
pub fn any_i64(tag: &'static str, lo: i64, hi: i64) -> i64 {
    draw(tag, lo as i128, hi as i128) as i64
}
#[inline(never)]
pub fn any_usize(tag: &'static str, lo: usize, hi: usize) -> usize {
    draw(tag, lo as i128, hi as i128) as usize
}
#[inline(never)]
pub fn any_bool(tag: &'static str) -> bool {
    draw(tag, 0, 1) != 0
}

/// branch-free selection: under mirsym this builds an if-then-else term instead of forking the path
#[inline(never)]
pub fn ite_u64(c: bool, a: u64, b: u64) -> u64 {
    if c {
        a
    } else {
        b
    }
}
#[inline(never)]
pub fn ite_f64(c: bool, a: f64, b: f64) -> f64 {
    if c {
        a
    } else {
        b
    }
}
#[inline(never)]
pub fn ite_i64(c: bool, a: i64, b: i64) -> i64 {
    if c {
        a
    } else {
        b
    }
}

/// Turns on schedule exploration under mirsym: threads spawned afterwards are interleaved at their
/// synchronisation operations with at most `preemption_bound` preemptions (no effect natively).
#[inline(never)]
pub fn threads(_preemption_bound: u32) {
    START_ARRIVED.store(0, std::sync::atomic::Ordering::SeqCst);
}

static START_ARRIVED: std::sync::atomic::AtomicU32 = std::sync::atomic::AtomicU32::new(0);

/// First statement of a racing thread: natively the `n` threads of a scenario leave this line together (spin
/// barrier, given up after 20 ms) and, in a stress replay (VERIF_DELAY_SEED), after a pseudo-random offset of up
/// to a few microseconds, so that short race windows are hit. No effect under mirsym, which explores the
/// interleavings itself.
#[inline(never)]
pub fn start_line(n: u32) {
    use std::sync::atomic::Ordering;
    let me = START_ARRIVED.fetch_add(1, Ordering::SeqCst);
    let t0 = std::time::Instant::now();
    while START_ARRIVED.load(Ordering::SeqCst) < n {
        std::hint::spin_loop();
        if t0.elapsed().as_millis() > 20 {
            break;
        }
    }
    if let Ok(seed) = std::env::var("VERIF_DELAY_SEED") {
        let mut x = seed.parse::<u64>().unwrap_or(1).wrapping_add((me as u64 + 1).wrapping_mul(0x9E37_79B9_7F4A_7C15));
        x ^= x >> 12;
        x ^= x << 25;
        x ^= x >> 27;
        let spins = (x.wrapping_mul(0x2545_F491_4F6C_DD1D) >> 33) % 3000;
        for _ in 0..spins {
            std::hint::spin_loop();
        }
    }
}

/// Between `unordered(true)` and `unordered(false)` the harness only uses the results of the calls it makes as
/// sets, so mirsym need not explore the iteration orders of hash containers there (no effect natively).
#[inline(never)]
pub fn unordered(_on: bool) {}

/// Bound on the number of hash-container iterations per run whose order deviates from insertion order
/// (mirsym explores every placement of that many deviations; no effect natively, where std picks the order).
#[inline(never)]
pub fn order_deviations(_k: u32) {}

#[inline(never)]
pub fn assume(c: bool) {
    if !c {
        println!("ASSUME-FALSE");
        dump_and_exit(4);
    }
}

#[inline(never)]
pub fn check(c: bool, tag: &'static str) {
    {
        let mut g = STATE.lock().unwrap();
        if let Some(st) = g.as_mut() {
            st.checks += 1;
        }
    }
    if !c {
        println!("CHECK-FAILED {}", tag);
        dump_and_exit(3);
    }
}

#[inline(never)]
pub fn cover(tag: &'static str) {
    let mut g = STATE.lock().unwrap();
    if let Some(st) = g.as_mut() {
        if !st.covers.iter().any(|c| c == tag) {
            st.covers.push(tag.to_string());
        }
    }
}

#[inline(never)]
pub fn observe(tag: &'static str, v: i64) {
    let mut g = STATE.lock().unwrap();
    if let Some(st) = g.as_mut() {
        st.observations.push((tag.to_string(), v as i128));
    }
}

/// observation of a float by its bit pattern (exact)
#[inline(never)]
pub fn observe_f64(tag: &'static str, v: f64) {
    let mut g = STATE.lock().unwrap();
    if let Some(st) = g.as_mut() {
        st.observations.push((tag.to_string(), v.to_bits() as i128));
    }
}

pub fn dump() {
    let g = STATE.lock().unwrap();
    if let Some(st) = g.as_ref() {
        let d: Vec<String> = st.drawn.iter().map(|(t, v)| format!("[\"{}\",{}]", t, v)).collect();
        println!("DRAWN [{}]", d.join(","));
        let o: Vec<String> = st.observations.iter().map(|(t, v)| format!("[\"{}\",{}]", t, v)).collect();
        println!("OBS [{}]", o.join(","));
        let c: Vec<String> = st.covers.iter().map(|t| format!("\"{}\"", t)).collect();
        println!("COVERS [{}]", c.join(","));
        println!("CHECKS {}", st.checks);
    }
}

pub fn dump_and_exit(code: i32) -> ! {
    dump();
    std::process::exit(code)
}
