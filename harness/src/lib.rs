//! Scenario functions + oracles, one family per property. Each scenario is an
//! ordinary Rust function over the public API of sentinel-core (plus the guarded
//! hooks); `mirsym` executes its MIR symbolically, the `replay` binary runs it natively.
pub mod vrt;
pub mod c01;
pub mod c02;

/// Structural parameters of a scenario (always concrete).
#[derive(Clone, Copy, Debug)]
pub struct Shape {
    pub p: [i64; 8],
}

pub type Scenario = fn(Shape);

pub fn scenario(name: &str) -> Option<Scenario> {
    Some(match name {
        "c01_flow_reject" => c01::c01_flow_reject,
        "c02_window" => c02::c02_window,
        _ => return None,
    })
}
