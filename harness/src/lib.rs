//! Scenario functions + oracles, one family per property. Each scenario is an
//! ordinary Rust function over the public API of sentinel-core (plus the guarded
//! hooks); `mirsym` executes its MIR symbolically, the `replay` binary runs it natively.
pub mod vrt;
pub mod c01;
pub mod c02;
pub mod c03;
pub mod c04;
pub mod c05;
pub mod c06;
pub mod c07;
pub mod c08;
pub mod c09;
pub mod c10;
pub mod c11;
pub mod c12;
pub mod c13;
pub mod c14;
pub mod c15;
pub mod c16;
pub mod c17;
pub mod c20;
pub mod stdx;
pub mod util;

/// Structural parameters of a scenario (always concrete).
#[derive(Clone, Copy, Debug)]
pub struct Shape {
    pub p: [i64; 8],
}

pub type Scenario = fn(Shape);

pub fn scenario(name: &str) -> Option<Scenario> {
    Some(match name {
        "c01_flow_reject" => c01::c01_flow_reject,
        "c02_window" => c02::c02_window,
        "c03_breaker" => c03::c03_breaker,
        "c04_accounting" => c04::c04_accounting,
        "c05_isolation" => c05::c05_isolation,
        "c05_hotspot" => c05::c05_hotspot,
        "c06_hotspot_qps" => c06::c06_hotspot_qps,
        "c07_flow_throttling" => c07::c07_flow_throttling,
        "c07_hotspot_throttling" => c07::c07_hotspot_throttling,
        "c08_warmup" => c08::c08_warmup,
        "c09_system" => c09::c09_system,
        "c10_manager" => c10::c10_manager,
        "c11_reload" => c11::c11_reload,
        "c12_flow" => c12::c12_flow,
        "c12_breaker" => c12::c12_breaker,
        "c12_hotspot" => c12::c12_hotspot,
        "c12_iso_sys" => c12::c12_iso_sys,
        "c13_chain" => c13::c13_chain,
        "c14_shared_node" => c14::c14_shared_node,
        "c15_managers" => c15::c15_managers,
        "c16_breaker_race" => c16::c16_breaker_race,
        "c17_geometry" => c17::c17_geometry,
        "c17_threads" => c17::c17_threads,
        "c20_tower" => c20::c20_tower,
        "stdx_api" => stdx::stdx_api,
        _ => return None,
    })
}
