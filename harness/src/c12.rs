//! C12 — valid rules are enforceable without panics; invalid input never poisons Sentinel.
//! The property is "no panic path anywhere" plus the health probe at the end; natively a panic ends the
//! process with exit code 101, which is how a counterexample is confirmed.
use crate::util::T0;
use crate::{vrt, Shape};
use sentinel_core::api::EntryBuilder;
use sentinel_core::base::{ResourceType, SentinelRule, TrafficType};
use sentinel_core::verif::clock;
use sentinel_core::{circuitbreaker as cb, flow, hotspot, isolation, system};
use std::collections::HashMap;
use std::sync::Arc;

fn sel_u32(tag: &'static str, a: u32, b: u32, c: u32) -> u32 {
    let i = vrt::any_u32(tag, 0, 2);
    vrt::ite_u64(i == 0, a as u64, vrt::ite_u64(i == 1, b as u64, c as u64)) as u32
}
fn sel_u64(tag: &'static str, a: u64, b: u64, c: u64) -> u64 {
    let i = vrt::any_u32(tag, 0, 2);
    vrt::ite_u64(i == 0, a, vrt::ite_u64(i == 1, b, c))
}

/// threshold classes: negative, 0, 0.5, 1, 1e6, NaN
fn thr_class(k: i64) -> f64 {
    match k {
        0 => -1.0,
        1 => 0.0,
        2 => 0.5,
        3 => 1.0,
        4 => 1_000_000.0,
        _ => f64::NAN,
    }
}

fn drive(res: &String, nargs: usize, with_attachments: bool) {
    drive_from(res, nargs, with_attachments, T0 + 9_900, true)
}

fn drive_from(res: &String, nargs: usize, with_attachments: bool, t0: u64, boundary_batches: bool) {
    // two entries with boundary batch counts (or single tokens), arguments and attachments; time moves in between
    let mut t = t0;
    for round in 0..2 {
        let batch = if boundary_batches { sel_u32("batch", 0, 1, 1_000_000) } else { 1 };
        let mut b = EntryBuilder::new(res.clone())
            .with_resource_type(ResourceType::Common)
            .with_traffic_type(if round == 0 { TrafficType::Inbound } else { TrafficType::Outbound })
            .with_batch_count(batch);
        if nargs > 0 {
            let mut a: Vec<String> = Vec::new();
            for i in 0..nargs {
                a.push(crate::util::name("a", i));
            }
            b = b.with_args(Some(a));
        }
        if with_attachments {
            let mut m: HashMap<String, String> = HashMap::new();
            m.insert("k".into(), "v".into());
            b = b.with_attachments(Some(m));
        }
        if let Ok(e) = b.build() {
            t += 700;
            clock::set_ns(t * 1_000_000);
            e.exit();
            vrt::cover("entry-passed");
        } else {
            vrt::cover("entry-blocked");
        }
        t += 450;
        clock::set_ns(t * 1_000_000);
    }
}

fn health_probe() {
    // every manager still answers and accepts updates; an unrelated resource can be entered
    let _ = flow::get_rules();
    let _ = cb::get_rules();
    let _ = hotspot::get_rules();
    let _ = isolation::get_rules();
    let _ = system::get_rules();
    let good = Arc::new(flow::Rule { id: "good".into(), resource: "c12-good".into(), threshold: 5.0, ..Default::default() });
    flow::append_rule(good.clone());
    let rs = flow::get_rules_of_resource(&"c12-good".into());
    vrt::check(rs.len() == 1, "C12:manager-unusable-afterwards");
    let e = EntryBuilder::new("c12-good".into()).build();
    vrt::check(e.is_ok(), "C12:unrelated-resource-affected");
    if let Ok(e) = e {
        e.exit();
    }
}

/// flow.  shape: p0 = calculate strategy (0 Direct, 1 WarmUp, 2 MemoryAdaptive, 3 Custom), p1 = control (0 Reject, 1 Throttling, 2 Custom),
/// p2 = relation (0 Current, 1 Associated with an existing resource, 2 Associated with a never-seen one, 3 Associated with ""),
/// p3 = loading entry point (0 load_rules, 1 load_rules_of_resource, 2 append_rule), p4 = threshold class, p5 = 1: empty resource name
pub fn c12_flow(s: Shape) {
    clock::arm((T0 + 9_000) * 1_000_000);
    let res: String = if s.p[5] == 1 { String::new() } else { "c12-flow".into() };
    if s.p[2] == 1 {
        // make the associated resource known
        if let Ok(e) = EntryBuilder::new("c12-ref".into()).build() {
            e.exit();
        }
    }
    let rule = Arc::new(flow::Rule {
        id: "r".into(),
        resource: res.clone(),
        ref_resource: match s.p[2] {
            1 => "c12-ref".into(),
            2 => "c12-never".into(),
            _ => String::new(),
        },
        calculate_strategy: match s.p[0] {
            0 => flow::CalculateStrategy::Direct,
            1 => flow::CalculateStrategy::WarmUp,
            2 => flow::CalculateStrategy::MemoryAdaptive,
            _ => flow::CalculateStrategy::Custom(7),
        },
        control_strategy: match s.p[1] {
            0 => flow::ControlStrategy::Reject,
            1 => flow::ControlStrategy::Throttling,
            _ => flow::ControlStrategy::Custom(7),
        },
        relation_strategy: if s.p[2] == 0 { flow::RelationStrategy::Current } else { flow::RelationStrategy::Associated },
        threshold: thr_class(s.p[4]),
        warm_up_period_sec: sel_u32("period", 0, 1, 10),
        warm_up_cold_factor: sel_u32("cold", 0, 1, 3),
        max_queueing_time_ms: sel_u32("maxq", 0, 1, 500),
        stat_interval_ms: vrt::ite_u64(vrt::any_bool("iv-big"), 600_000, sel_u32("interval", 0, 1, 500) as u64) as u32,
        low_mem_usage_threshold: sel_u64("lowthr", 0, 10, 1000),
        high_mem_usage_threshold: sel_u64("highthr", 0, 5, 1000),
        mem_low_water_mark: sel_u64("lowmark", 0, 1000, 2000),
        mem_high_water_mark: sel_u64("highmark", 0, 1500, 2000),
    });
    let valid = rule.is_valid().is_ok();
    match s.p[3] {
        0 => {
            flow::load_rules(crate::util::vec1(rule.clone()));
        }
        1 => {
            let _ = flow::load_rules_of_resource(&res, crate::util::vec1(rule.clone()));
        }
        _ => {
            flow::append_rule(rule.clone());
        }
    }
    let active = flow::get_rules_of_resource(&res).len();
    let has_generator = s.p[0] != 3 && s.p[1] != 2;
    if valid && has_generator && !res.is_empty() {
        vrt::cover("valid-rule");
        vrt::check(active == 1, "C12:valid-rule-not-enforced");
    }
    if !valid {
        vrt::cover("invalid-rule");
        vrt::check(active == 0, "C12:invalid-rule-enforced");
    }
    drive(&res, 1, false);
    if s.p[7] == 1 && !res.is_empty() {
        let good = Arc::new(flow::Rule { id: "good2".into(), resource: res.clone(), threshold: 1000.0, ..Default::default() });
        flow::append_rule(good);
        let now = flow::get_rules_of_resource(&res).len();
        vrt::cover("later-append");
        if !valid {
            vrt::check(now == 1, "C12:invalid-rule-enforced-after-a-later-append");
        }
        drive_from(&res, 1, false, T0 + 12_500, false);
    }
    health_probe();
}

/// circuit breaker.  shape: p0 = strategy (0 slow, 1 error ratio, 2 error count, 3 Custom), p1 = entry point, p2 = threshold class,
/// p3 = 1: empty resource name
pub fn c12_breaker(s: Shape) {
    clock::arm((T0 + 9_000) * 1_000_000);
    let res: String = if s.p[3] == 1 { String::new() } else { "c12-cb".into() };
    let rule = Arc::new(cb::Rule {
        id: "r".into(),
        resource: res.clone(),
        strategy: match s.p[0] {
            0 => cb::BreakerStrategy::SlowRequestRatio,
            1 => cb::BreakerStrategy::ErrorRatio,
            2 => cb::BreakerStrategy::ErrorCount,
            _ => cb::BreakerStrategy::Custom(7),
        },
        retry_timeout_ms: sel_u32("retry", 0, 1, 600_000),
        min_request_amount: sel_u64("minreq", 0, 1, 1_000_000),
        stat_interval_ms: sel_u32("interval", 0, 1, 600_000),
        stat_sliding_window_bucket_count: sel_u32("buckets", 0, 1, 7),
        max_allowed_rt_ms: sel_u64("maxrt", 0, 1, 1_000_000),
        threshold: thr_class(s.p[2]),
    });
    let valid = rule.is_valid().is_ok();
    match s.p[1] {
        0 => {
            cb::load_rules(crate::util::vec1(rule.clone()));
        }
        1 => {
            let _ = cb::load_rules_of_resource(&res, crate::util::vec1(rule.clone()));
        }
        _ => {
            cb::append_rule(rule.clone());
        }
    }
    let active = cb::get_breakers_of_resource(&res).len();
    if valid && s.p[0] != 3 && !res.is_empty() {
        vrt::cover("valid-rule");
        vrt::check(active == 1, "C12:valid-rule-not-enforced");
    }
    if !valid {
        vrt::cover("invalid-rule");
        vrt::check(active == 0, "C12:invalid-rule-enforced");
    }
    drive(&res, 0, false);
    if s.p[7] == 1 && !res.is_empty() {
        let good = Arc::new(cb::Rule {
            id: "good".into(),
            resource: res.clone(),
            strategy: cb::BreakerStrategy::ErrorCount,
            retry_timeout_ms: 1000,
            min_request_amount: 1,
            stat_interval_ms: 1000,
            stat_sliding_window_bucket_count: 1,
            max_allowed_rt_ms: 0,
            threshold: 1000.0,
        });
        cb::append_rule(good);
        let now = cb::get_breakers_of_resource(&res).len();
        vrt::cover("later-append");
        if !valid {
            vrt::check(now == 1, "C12:invalid-rule-enforced-after-a-later-append");
        }
        drive_from(&res, 0, false, T0 + 12_500, false);
    }
    health_probe();
}

/// hotspot.  shape: p0 = metric (0 Concurrency, 1 QPS), p1 = control (0 Reject, 1 Throttling, 2 Custom), p2 = param index + 3 (0..6),
/// p3 = entry point, p4 = number of args (0, 1, 3), p5 = 1: keyed parameter + attachments, p6 = 1: empty resource name
pub fn c12_hotspot(s: Shape) {
    clock::arm((T0 + 9_000) * 1_000_000);
    let res: String = if s.p[6] == 1 { String::new() } else { "c12-hot".into() };
    let mut specific: HashMap<String, u64> = HashMap::new();
    specific.insert(crate::util::name("a", 0), sel_u64("override", 0, 1, 1_000_000));
    let rule = Arc::new(hotspot::Rule {
        id: "r".into(),
        resource: res.clone(),
        metric_type: if s.p[0] == 0 { hotspot::MetricType::Concurrency } else { hotspot::MetricType::QPS },
        control_strategy: match s.p[1] {
            0 => hotspot::ControlStrategy::Reject,
            1 => hotspot::ControlStrategy::Throttling,
            _ => hotspot::ControlStrategy::Custom(7),
        },
        param_index: (s.p[2] - 3) as isize,
        param_key: if s.p[5] == 1 { "k".into() } else { String::new() },
        threshold: sel_u64("thr", 0, 1, 1_000_000),
        max_queueing_time_ms: sel_u64("maxq", 0, 1, 2000),
        burst_count: sel_u64("burst", 0, 1, 1_000_000),
        duration_in_sec: sel_u64("dur", 0, 1, 600),
        params_max_capacity: sel_u64("cap", 0, 1, 5) as usize,
        specific_items: specific,
    });
    let valid = rule.is_valid().is_ok();
    match s.p[3] {
        0 => {
            hotspot::load_rules(crate::util::vec1(rule.clone()));
        }
        1 => {
            let _ = hotspot::load_rules_of_resource(&res, crate::util::vec1(rule.clone()));
        }
        _ => {
            hotspot::append_rule(rule.clone());
        }
    }
    let active = hotspot::get_rules_of_resource(&res).len();
    if valid && s.p[1] != 2 && !res.is_empty() {
        vrt::cover("valid-rule");
        vrt::check(active == 1, "C12:valid-rule-not-enforced");
    }
    if !valid {
        vrt::cover("invalid-rule");
        vrt::check(active == 0, "C12:invalid-rule-enforced");
    }
    drive(&res, s.p[4] as usize, s.p[5] == 1);
    if s.p[7] == 1 && !res.is_empty() {
        // a later valid update of the same resource must not bring an ignored rule back
        let good = Arc::new(hotspot::Rule {
            id: "good".into(),
            resource: res.clone(),
            metric_type: hotspot::MetricType::QPS,
            control_strategy: hotspot::ControlStrategy::Reject,
            param_index: 0,
            threshold: 1000,
            duration_in_sec: 1,
            ..Default::default()
        });
        hotspot::append_rule(good);
        let now = hotspot::get_rules_of_resource(&res).len();
        vrt::cover("later-append");
        if !valid {
            vrt::check(now == 1, "C12:invalid-rule-enforced-after-a-later-append");
        }
        drive_from(&res, s.p[4] as usize, s.p[5] == 1, T0 + 12_500, false);
    }
    health_probe();
}

/// isolation and system.  shape: p0 = 0 isolation / 1..5 system metric type (Load, AvgRT, Concurrency, InboundQPS, CpuUsage),
/// p1 = system strategy (0 NoAdaptive, 1 BBR), p2 = entry point (system: 0 load, 2 append), p3 = threshold class, p4 = 1: empty resource (isolation)
pub fn c12_iso_sys(s: Shape) {
    clock::arm((T0 + 9_000) * 1_000_000);
    let res: String = if s.p[4] == 1 { String::new() } else { "c12-iso".into() };
    if s.p[0] == 0 {
        let rule = Arc::new(isolation::Rule {
            id: "r".into(),
            resource: res.clone(),
            threshold: sel_u32("thr", 0, 1, 1_000_000),
            ..Default::default()
        });
        let valid = rule.is_valid().is_ok();
        match s.p[2] {
            0 => isolation::load_rules(crate::util::vec1(rule.clone())),
            1 => {
                let _ = isolation::load_rules_of_resource(&res, crate::util::vec1(rule.clone()));
            }
            _ => {
                isolation::append_rule(rule.clone());
            }
        }
        let active = isolation::get_rules_of_resource(&res).len();
        if valid {
            vrt::cover("valid-rule");
            vrt::check(active == 1, "C12:valid-rule-not-enforced");
        } else {
            vrt::cover("invalid-rule");
            vrt::check(active == 0, "C12:invalid-rule-enforced");
        }
    } else {
        sentinel_core::system_metric::verif_set_readings(0.5, 50.0, 1000);
        let rule = Arc::new(system::Rule {
            id: "r".into(),
            metric_type: match s.p[0] {
                1 => system::MetricType::Load,
                2 => system::MetricType::AvgRT,
                3 => system::MetricType::Concurrency,
                4 => system::MetricType::InboundQPS,
                _ => system::MetricType::CpuUsage,
            },
            threshold: thr_class(s.p[3]),
            strategy: if s.p[1] == 0 { system::AdaptiveStrategy::NoAdaptive } else { system::AdaptiveStrategy::BBR },
        });
        let valid = rule.is_valid().is_ok();
        if s.p[2] == 0 {
            system::load_rules(crate::util::vec1(rule.clone()));
        } else {
            system::append_rule(rule.clone());
        }
        let active = system::get_rules().len();
        if valid {
            vrt::cover("valid-rule");
            vrt::check(active == 1, "C12:valid-rule-not-enforced");
        } else {
            vrt::cover("invalid-rule");
            vrt::check(active == 0, "C12:invalid-rule-enforced");
        }
    }
    drive(&res, 0, false);
    system::clear_rules();
    health_probe();
}
