//! C01 — reject-type flow control admits a request iff it fits every rule's window.
use crate::{vrt, Shape};
use sentinel_core::api::EntryBuilder;
use sentinel_core::base::{EntryStrongPtr, ResourceType, TrafficType};
use sentinel_core::flow;
use sentinel_core::verif::clock;
use std::sync::Arc;

const T0: u64 = 1_000_000_000_000;

/// interval classes of a rule: stat_interval_ms value, effective interval, bucket length of the array it reads
fn class(c: i64) -> (u32, u64, u64) {
    match c {
        0 => (0, 1000, 500),      // default metric (2 x 500 of the global ring)
        1 => (1000, 1000, 500),   // == default
        2 => (500, 500, 500),     // reuse global ring, 1 bucket
        3 => (2000, 2000, 500),   // reuse, 4 buckets
        4 => (5000, 5000, 500),   // reuse, 10 buckets
        5 => (10000, 10000, 500), // reuse, 20 buckets
        6 => (250, 250, 250),     // private 1 x 250
        7 => (700, 700, 700),     // private 1 x 700
        8 => (1500, 1500, 1500),  // private 1 x 1500 (does not tile the ring)
        _ => (20000, 20000, 20000), // private 1 x 20000 (longer than the ring)
    }
}

/// shape: p0 = number of rules (1..3), p1..p3 = interval class per rule, p4 = k requests
pub fn c01_flow_reject(s: Shape) {
    let nr = s.p[0] as usize;
    let k = s.p[4] as usize;
    let res = String::from("c01");
    let mut rules = Vec::new();
    let mut thr2 = [0u64; 3];
    let mut iv = [0u64; 3];
    let mut bl = [0u64; 3];
    for r in 0..nr {
        let (stat_ms, i, l) = class(s.p[1 + r]);
        thr2[r] = vrt::any_u64("thr2", 0, 8);
        iv[r] = i;
        bl[r] = l;
        rules.push(Arc::new(flow::Rule {
            id: crate::util::name("r", r as usize),
            resource: res.clone(),
            threshold: thr2[r] as f64 / 2.0,
            stat_interval_ms: stat_ms,
            calculate_strategy: flow::CalculateStrategy::Direct,
            control_strategy: flow::ControlStrategy::Reject,
            ..Default::default()
        }));
    }
    let mut t = vrt::any_u64("t0", T0 + 9000, T0 + 9999);
    clock::arm(t * 1_000_000);
    flow::load_rules(rules);
    let maxiv = {
        let mut m = 0;
        for r in 0..nr {
            if iv[r] > m {
                m = iv[r];
            }
        }
        m
    };
    let mut adm_t = [0u64; 8];
    let mut adm_n = [0u64; 8];
    let mut nadm = 0usize;
    let mut open: Vec<EntryStrongPtr> = Vec::new();
    for _ in 0..k {
        let gap = vrt::any_u64("gap", 0, maxiv * 5 / 2);
        t += gap;
        clock::set_ns(t * 1_000_000);
        if !open.is_empty() && vrt::any_bool("exit") {
            let e = open.remove(0);
            e.exit();
        }
        let n = vrt::any_u64("batch", 0, 3);
        // oracle
        let mut fits = true;
        for r in 0..nr {
            let cur = t - t % bl[r];
            let mut inwin = 0u64;
            for j in 0..nadm {
                let b = adm_t[j] - adm_t[j] % bl[r];
                inwin += vrt::ite_u64((b + iv[r] > cur) & (b <= cur), adm_n[j], 0);
            }
            fits = fits & !(2 * (inwin + n) > thr2[r]);
        }
        let got = EntryBuilder::new(res.clone())
            .with_traffic_type(TrafficType::Inbound)
            .with_resource_type(ResourceType::Common)
            .with_batch_count(n as u32)
            .build();
        match got {
            Ok(e) => {
                vrt::cover("admitted");
                vrt::check(fits, "C01:admitted-but-does-not-fit");
                adm_t[nadm] = t;
                adm_n[nadm] = n;
                nadm += 1;
                open.push(e);
            }
            Err(_) => {
                vrt::cover("rejected");
                vrt::check(!fits, "C01:rejected-but-fits");
            }
        }
    }
    for e in open {
        e.exit();
    }
}
