//! Shared helpers for scenarios.
use sentinel_core::base::{BaseSlot, BlockError, BlockType, EntryContext, StatSlot};
use sentinel_core::utils::AsAny;
use std::sync::atomic::{AtomicI64, AtomicU64, Ordering};
use std::sync::{Arc, Mutex};

pub const T0: u64 = 1_000_000_000_000;

/// numeric code of a block type (Other(n) -> 100 + n)
pub fn block_code(b: BlockType) -> i64 {
    match b {
        BlockType::Unknown => 0,
        BlockType::Flow => 1,
        BlockType::Isolation => 2,
        BlockType::CircuitBreaking => 3,
        BlockType::SystemFlow => 4,
        BlockType::HotSpotParamFlow => 5,
        BlockType::Other(n) => 100 + n as i64,
    }
}

/// An observer statistic slot: remembers what the last entry was told.
pub struct Recorder {
    pub order: u32,
    pub passes: AtomicU64,
    pub blocks: AtomicU64,
    pub completes: AtomicU64,
    pub last_block: AtomicI64,
    pub last_rule: Mutex<Option<Arc<dyn sentinel_core::base::SentinelRule>>>,
    pub last_value_u32: AtomicI64,
}

impl Recorder {
    pub fn new(order: u32) -> Arc<Self> {
        Arc::new(Recorder {
            order,
            passes: AtomicU64::new(0),
            blocks: AtomicU64::new(0),
            completes: AtomicU64::new(0),
            last_block: AtomicI64::new(-1),
            last_rule: Mutex::new(None),
            last_value_u32: AtomicI64::new(-1),
        })
    }
}

impl BaseSlot for Recorder {
    fn order(&self) -> u32 {
        self.order
    }
}

impl StatSlot for Recorder {
    fn on_entry_pass(&self, _ctx: &EntryContext) {
        self.passes.fetch_add(1, Ordering::SeqCst);
    }
    fn on_entry_blocked(&self, _ctx: &EntryContext, e: BlockError) {
        self.blocks.fetch_add(1, Ordering::SeqCst);
        self.last_block.store(block_code(e.block_type()), Ordering::SeqCst);
        *self.last_rule.lock().unwrap() = e.triggered_rule();
        let v = match e.triggered_value() {
            Some(s) => match (*s).as_any().downcast_ref::<u32>() {
                Some(x) => *x as i64,
                None => -2,
            },
            None => -1,
        };
        self.last_value_u32.store(v, Ordering::SeqCst);
    }
    fn on_completed(&self, _ctx: &mut EntryContext) {
        self.completes.fetch_add(1, Ordering::SeqCst);
    }
}

/// does the recorded triggering rule point to the same allocation as `r`?
pub fn same_rule<T>(rec: &Recorder, r: &Arc<T>) -> bool {
    match rec.last_rule.lock().unwrap().as_ref() {
        Some(x) => Arc::as_ptr(x) as *const u8 == Arc::as_ptr(r) as *const u8,
        None => false,
    }
}

/// `vec![x]` without the macro (its expansion is raw-pointer code the interpreter does not model)
pub fn vec1<T>(x: T) -> Vec<T> {
    let mut v = Vec::new();
    v.push(x);
    v
}

/// "<prefix><i>" without format! (formatting is opaque to the interpreter)
pub fn name(prefix: &str, i: usize) -> String {
    let d = match i {
        0 => "0",
        1 => "1",
        2 => "2",
        3 => "3",
        4 => "4",
        5 => "5",
        6 => "6",
        7 => "7",
        8 => "8",
        _ => "9",
    };
    let mut s = String::from(prefix);
    s.push_str(d);
    s
}

/// the chain a scenario drives: p7 == 1 selects the complete global chain, otherwise only the slots in `mask`
pub fn chain_for(s: &crate::Shape, mask: u32) -> Arc<sentinel_core::base::SlotChain> {
    if s.p[7] == 1 {
        sentinel_core::api::global_slot_chain()
    } else {
        sentinel_core::verif::slot_chain_of(mask, None)
    }
}
