//! C05 — concurrency caps (isolation, hotspot concurrency) hold and are reported rightly.
use crate::util::{same_rule, Recorder, T0};
use crate::{vrt, Shape};
use sentinel_core::api::EntryBuilder;
use sentinel_core::base::{EntryStrongPtr, ResourceType, TrafficType};
use sentinel_core::isolation;
use sentinel_core::verif::{clock, slot_chain_with};
use std::sync::atomic::Ordering;
use std::sync::Arc;

/// shape: p0 = number of isolation rules (1..2), p1 = op count
pub fn c05_isolation(s: Shape) {
    let nr = s.p[0] as usize;
    let ops = s.p[1] as usize;
    let res = String::from("c05-iso");
    clock::arm(T0 * 1_000_000);
    let mut thr = [0u32; 2];
    let mut rules = Vec::new();
    for r in 0..nr {
        thr[r] = vrt::any_u32("thr", 1, 3);
        rules.push(Arc::new(isolation::Rule {
            id: crate::util::name("i", r as usize),
            resource: res.clone(),
            threshold: thr[r],
            ..Default::default()
        }));
    }
    isolation::load_rules(rules.clone());
    let rec = Recorder::new(9000);
    let chain = slot_chain_with(rec.clone());
    let mut open: Vec<EntryStrongPtr> = Vec::new();
    let mut minthr = thr[0];
    for r in 1..nr {
        if thr[r] < minthr {
            minthr = thr[r];
        }
    }
    for _ in 0..ops {
        let do_exit = !open.is_empty() && vrt::any_bool("exit");
        if do_exit {
            let idx = if open.len() > 1 && vrt::any_bool("last") { open.len() - 1 } else { 0 };
            let e = open.remove(idx);
            e.exit();
            continue;
        }
        let n = vrt::any_u32("batch", 1, 3);
        let inflight = open.len() as u32;
        let mut fits = true;
        for r in 0..nr {
            if inflight + n > thr[r] {
                fits = false;
            }
        }
        let blocks_before = rec.blocks.load(Ordering::SeqCst);
        let got = EntryBuilder::new(res.clone())
            .with_resource_type(ResourceType::Common)
            .with_traffic_type(TrafficType::Outbound)
            .with_batch_count(n)
            .with_slot_chain(chain.clone())
            .build();
        match got {
            Ok(e) => {
                vrt::cover("admitted");
                vrt::check(fits, "C05:admitted-over-cap");
                open.push(e);
                vrt::check(open.len() as u32 <= minthr, "C05:inflight-over-cap");
            }
            Err(_) => {
                vrt::cover("rejected");
                vrt::check(!fits, "C05:rejected-under-cap");
                vrt::check(rec.blocks.load(Ordering::SeqCst) == blocks_before + 1, "C05:block-notified-once");
                vrt::check(rec.last_block.load(Ordering::SeqCst) == 2, "C05:block-type-isolation");
                // the rule named must be one whose inequality fails
                let mut named_ok = false;
                for r in 0..nr {
                    if same_rule(&rec, &rules[r]) && inflight + n > thr[r] {
                        named_ok = true;
                    }
                }
                vrt::check(named_ok, "C05:triggering-rule");
                vrt::check(rec.last_value_u32.load(Ordering::SeqCst) == inflight as i64, "C05:triggering-value");
            }
        }
    }
    for e in open {
        e.exit();
    }
}

use sentinel_core::hotspot;
use std::collections::HashMap;

fn val_name(i: usize) -> String {
    crate::util::name("v", i)
}

/// shape: p0 = parameter mode (0: index 0, 1: index -1, 2: key "k", 3: index 5 = missing, 4: index -4 = missing),
/// p1 = distinct values (1..3), p2 = 1 if value 0 has an override, p3 = op count
pub fn c05_hotspot(s: Shape) {
    let mode = s.p[0];
    let nv = s.p[1] as usize;
    let has_override = s.p[2] != 0;
    let ops = s.p[3] as usize;
    let res = String::from("c05-hot");
    clock::arm(T0 * 1_000_000);
    let thr = vrt::any_u64("thr", 1, 2);
    let ovr = if has_override { vrt::any_u64("override", 1, 3) } else { 0 };
    let mut specific: HashMap<String, u64> = HashMap::new();
    if has_override {
        specific.insert(val_name(0), ovr);
    }
    let rule = Arc::new(hotspot::Rule {
        id: "h0".into(),
        resource: res.clone(),
        metric_type: hotspot::MetricType::Concurrency,
        control_strategy: hotspot::ControlStrategy::Reject,
        param_index: match mode {
            0 => 0,
            1 => -1,
            3 => 5,
            4 => -4,
            _ => 0,
        },
        param_key: if mode == 2 { "k".into() } else { String::new() },
        threshold: thr,
        specific_items: specific,
        ..Default::default()
    });
    hotspot::load_rules(crate::util::vec1(rule.clone()));
    let rec = Recorder::new(9000);
    let chain = if s.p[7] == 1 {
        slot_chain_with(rec.clone())
    } else {
        use sentinel_core::verif::slots;
        sentinel_core::verif::slot_chain_of(slots::HOTSPOT | slots::STAT_HOTSPOT, Some(rec.clone()))
    };
    let missing = mode == 3 || mode == 4;
    let mut open: Vec<(EntryStrongPtr, usize)> = Vec::new();
    let mut inflight = [0u64; 3];
    for _ in 0..ops {
        let do_exit = !open.is_empty() && vrt::any_bool("exit");
        if do_exit {
            let idx = if open.len() > 1 && vrt::any_bool("last") { open.len() - 1 } else { 0 };
            let (e, v) = open.remove(idx);
            e.exit();
            if !missing {
                inflight[v] -= 1;
            }
            continue;
        }
        let v = vrt::any_usize("value", 0, nv - 1);
        let n = vrt::any_u32("batch", 1, 2);
        let cap = if has_override && v == 0 { ovr } else { thr };
        let mut b = EntryBuilder::new(res.clone())
            .with_resource_type(ResourceType::Common)
            .with_traffic_type(TrafficType::Outbound)
            .with_batch_count(n)
            .with_slot_chain(chain.clone());
        if mode == 2 {
            let mut m: HashMap<String, String> = HashMap::new();
            m.insert("k".into(), val_name(v));
            m.insert("other".into(), "x".into());
            b = b.with_attachments(Some(m));
        } else {
            let mut a: Vec<String> = Vec::new();
            if mode == 1 {
                a.push("first".into());
                a.push(val_name(v));
            } else {
                a.push(val_name(v));
                a.push("second".into());
            }
            b = b.with_args(Some(a));
        }
        let blocks_before = rec.blocks.load(Ordering::SeqCst);
        match b.build() {
            Ok(e) => {
                vrt::cover("admitted");
                vrt::check(missing | (inflight[v] + 1 <= cap), "C05h:admitted-over-cap");
                if !missing {
                    inflight[v] += 1;
                    vrt::check(inflight[v] <= cap, "C05h:inflight-over-cap");
                }
                open.push((e, v));
            }
            Err(_) => {
                vrt::cover("rejected");
                vrt::check(!missing, "C05h:rule-applied-without-parameter");
                vrt::check(!(inflight[v] + n as u64 <= cap), "C05h:rejected-under-cap");
                vrt::check(rec.blocks.load(Ordering::SeqCst) == blocks_before + 1, "C05h:block-notified-once");
                vrt::check(rec.last_block.load(Ordering::SeqCst) == 5, "C05h:block-type-hotspot");
                vrt::check(same_rule(&rec, &rule), "C05h:triggering-rule");
            }
        }
    }
    for (e, v) in open {
        e.exit();
        if !missing {
            inflight[v] -= 1;
        }
    }
}
