//! C05 — concurrency caps (isolation, hotspot concurrency) hold and are reported rightly.
use crate::util::{same_rule, Recorder, T0};
use crate::{vrt, Shape};
use sentinel_core::api::EntryBuilder;
use sentinel_core::base::{EntryStrongPtr, ResourceType, TrafficType};
use sentinel_core::isolation;
use sentinel_core::verif::{clock, slot_chain_with};
use std::sync::atomic::Ordering;
use std::sync::Arc;

/// shape: p0 = number of isolation rules (1..2), p1 = op count
pub fn c05_isolation(s: Shape) {
    let nr = s.p[0] as usize;
    let ops = s.p[1] as usize;
    let res = String::from("c05-iso");
    clock::arm(T0 * 1_000_000);
    let mut thr = [0u32; 2];
    let mut rules = Vec::new();
    for r in 0..nr {
        thr[r] = vrt::any_u32("thr", 1, 3);
        rules.push(Arc::new(isolation::Rule {
            id: crate::util::name("i", r as usize),
            resource: res.clone(),
            threshold: thr[r],
            ..Default::default()
        }));
    }
    isolation::load_rules(rules.clone());
    let rec = Recorder::new(9000);
    let chain = slot_chain_with(rec.clone());
    let mut open: Vec<EntryStrongPtr> = Vec::new();
    let mut minthr = thr[0];
    for r in 1..nr {
        if thr[r] < minthr {
            minthr = thr[r];
        }
    }
    for _ in 0..ops {
        let do_exit = !open.is_empty() && vrt::any_bool("exit");
        if do_exit {
            let idx = if open.len() > 1 && vrt::any_bool("last") { open.len() - 1 } else { 0 };
            let e = open.remove(idx);
            e.exit();
            continue;
        }
        let n = vrt::any_u32("batch", 1, 3);
        let inflight = open.len() as u32;
        let mut fits = true;
        for r in 0..nr {
            if inflight + n > thr[r] {
                fits = false;
            }
        }
        let blocks_before = rec.blocks.load(Ordering::SeqCst);
        let got = EntryBuilder::new(res.clone())
            .with_resource_type(ResourceType::Common)
            .with_traffic_type(TrafficType::Outbound)
            .with_batch_count(n)
            .with_slot_chain(chain.clone())
            .build();
        match got {
            Ok(e) => {
                vrt::cover("admitted");
                vrt::check(fits, "C05:admitted-over-cap");
                open.push(e);
                vrt::check(open.len() as u32 <= minthr, "C05:inflight-over-cap");
            }
            Err(_) => {
                vrt::cover("rejected");
                vrt::check(!fits, "C05:rejected-under-cap");
                vrt::check(rec.blocks.load(Ordering::SeqCst) == blocks_before + 1, "C05:block-notified-once");
                vrt::check(rec.last_block.load(Ordering::SeqCst) == 2, "C05:block-type-isolation");
                // the rule named must be one whose inequality fails
                let mut named_ok = false;
                for r in 0..nr {
                    if same_rule(&rec, &rules[r]) && inflight + n > thr[r] {
                        named_ok = true;
                    }
                }
                vrt::check(named_ok, "C05:triggering-rule");
                vrt::check(rec.last_value_u32.load(Ordering::SeqCst) == inflight as i64, "C05:triggering-value");
            }
        }
    }
    for e in open {
        e.exit();
    }
}
