#!/bin/bash
# usage: seedall.sh [tier]  -- runs every stored seeded change against its property's check; each must be reported
cd /verif
tier=${1:-quick}
for d in seeded/*/; do
  sid=$(basename $d)
  prop=${sid%%-*}
  ./seedrun.sh $sid $prop $tier | head -1
done
