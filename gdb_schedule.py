"""gdb script: replays a thread schedule found by mirsym on the native debug binary.
VERIF_GDB_PREEMPT = JSON list of [thread (0 = main, 1.. = spawned in order), "file:line", nth hit of that line by that thread];
each listed thread is held at that point for VERIF_GDB_HOLD seconds while all other threads keep running (non-stop mode)."""
import gdb
import json
import os
import time

pre = json.loads(os.environ.get('VERIF_GDB_PREEMPT', '[]'))
hold = float(os.environ.get('VERIF_GDB_HOLD', '0.4'))
gdb.execute('set pagination off')
gdb.execute('set confirm off')
gdb.execute('set non-stop on')
gdb.execute('set print thread-events off')
gdb.execute('set breakpoint pending on')


class Hold(gdb.Breakpoint):
    def __init__(self, spec, thread, nth):
        super().__init__(spec, internal=False)
        self.want_thread = thread + 1      # gdb numbers threads from 1 in creation order
        self.nth = nth
        self.seen = 0
        self.fired = False

    def stop(self):
        if self.fired:
            return False
        th = gdb.selected_thread()
        if th is None or th.num != self.want_thread:
            return False
        self.seen += 1
        if self.seen < self.nth:
            return False
        self.fired = True
        return True


bps = []
for thread, pos, nth in pre:
    f, line = pos.rsplit(':', 1)
    # the last three path components identify the file for gdb whatever directory the build ran in
    spec = '/'.join(f.split('/')[-3:]) + ':' + line
    try:
        bps.append(Hold(spec, thread, nth))
    except gdb.error as e:
        print('GDB-NOBREAK', spec, e)

try:
    gdb.execute('run')
    guard = 0
    while guard < 8:
        guard += 1
        inf = gdb.selected_inferior()
        if not inf.is_valid() or inf.pid == 0:
            break
        stopped = [t for t in inf.threads() if t.is_valid() and t.is_stopped()]
        if not stopped:
            break
        for t in stopped:
            print('GDB-HELD thread %d' % (t.num - 1))
        time.sleep(hold)
        gdb.execute('continue -a')
except gdb.error as e:
    print('GDB-ERROR', e)
