#!/opt/veriftools/pyvenv/bin/python3
"""Differential test of the std models: runs the `stdx_api` exerciser natively with random inputs and through
mirsym in concrete mode with the drawn values; every observation must agree. usage: stdx_selftest.py [groups] [seeds]"""
import os, sys, json
sys.path.insert(0, os.path.dirname(os.path.abspath(__file__)))
import checklib
from mirsym.explore import run_one

def main():
    groups = [int(x) for x in sys.argv[1].split(',')] if len(sys.argv) > 1 else list(range(9))
    seeds = int(sys.argv[2]) if len(sys.argv) > 2 else 4
    checklib.ensure_built()
    prog, models = checklib._load()
    bad = 0
    for g in groups:
        for sd in range(1, seeds + 1):
            nat = checklib.native('stdx_api', [g], seed=sd * 31 + g)
            vals = nat.get('drawn')
            if vals is None or nat['code'] != 0:
                print('group %d seed %d: native run failed: code %s %s' % (g, sd, nat['code'], nat.get('panic') or nat['err'][-300:]))
                bad += 1
                continue
            outcome, ctx, I = run_one(prog, models, 'harness::stdx::stdx_api', [g], concrete=[v for _, v in vals])
            obs = [[t, int(v)] for t, v in ctx.observations]
            if outcome[0] != 'ok':
                print('group %d seed %d: mirsym %s' % (g, sd, str(outcome)[:400]))
                bad += 1
                break
            nobs = nat.get('obs')
            if obs != nobs:
                k = 0
                while k < min(len(obs), len(nobs)) and obs[k] == nobs[k]:
                    k += 1
                print('group %d seed %d: observation %d differs: native %s / mirsym %s (inputs %s)' % (
                    g, sd, k, nobs[k] if k < len(nobs) else None, obs[k] if k < len(obs) else None, vals))
                bad += 1
                break
        else:
            print('group %d: %d seeds agree' % (g, seeds))
    try:
        os.makedirs(os.path.join(os.path.dirname(os.path.abspath(__file__)), '.work'), exist_ok=True)
        with open(os.path.join(os.path.dirname(os.path.abspath(__file__)), '.work', 'stdx.json'), 'w') as f:
            json.dump({'groups': groups, 'seeds_per_group': seeds, 'disagreements': bad}, f)
    except OSError:
        pass
    sys.exit(1 if bad else 0)

main()
