#!/bin/bash
# runs every claimed check (quick by default) and prints one line per check
cd /verif
tier=${1:-quick}
for id in $(python3 -c "import json;print(' '.join(c['property_id'] for c in json.load(open('MANIFEST.json'))['checks']))"); do
  s=$(date +%s)
  out=$(./check $id --tier $tier 2>/dev/null); rc=$?; out=$(echo "$out" | grep "VIOLATION\|INCONCLUSIVE\|KNOWN-FINDING" | head -3 | cut -c1-200)
  e=$(date +%s)
  echo "$id exit=$rc $((e-s))s $out"
done
