"""Program tables loaded from a mirdump JSONL file."""
import json, struct


class Program:
    def __init__(self, path):
        self.fns = {}
        self.exts = {}
        self.tys = {}
        self.allocs = {}
        self.statics = {}
        self.vts = {}
        self.roots = {}
        self.vt_errs = []
        with open(path) as f:
            for line in f:
                r = json.loads(line)
                k = r['k']
                if k == 'fn':
                    self.fns[r['id']] = r
                elif k == 'ext':
                    self.exts[r['id']] = r
                elif k == 'ty':
                    self.tys[r['id']] = r
                elif k == 'alloc':
                    self.allocs[r['id']] = r
                elif k == 'static':
                    self.statics[r['id']] = r
                elif k == 'vt':
                    self.vts[(r['vcall'], r['self_ty'])] = r['target']
                elif k == 'vt_err':
                    self.vt_errs.append(r)
                elif k == 'root':
                    self.roots[r['name']] = r['id']
        for t in self.tys.values():
            self._prep_ty(t)
        self.ty_by_str = {}
        for t in self.tys.values():
            self.ty_by_str.setdefault(t['str'], t['id'])
        # discriminants are dumped as bit patterns: give them the sign of the discriminant type
        for t in self.tys.values():
            if t.get('_raw_discr'):
                vs = t['variants']
                dt = self.tys.get(vs[0].get('discr_ty')) if vs and vs[0].get('discr_ty') is not None else None
                if dt is not None and dt.get('signed'):
                    half, full = 1 << (dt['bits'] - 1), 1 << dt['bits']
                    t['var2discr'] = [d - full if d >= half else d for d in t['var2discr']]
                    t['discr2var'] = {d: i for i, d in enumerate(t['var2discr'])}

    def _prep_ty(self, t):
        k = t['kind']
        if k == 'int':
            bits = t['bits']
            if t['signed']:
                t['lo'], t['hi'] = -(1 << (bits - 1)), (1 << (bits - 1)) - 1
            else:
                t['lo'], t['hi'] = 0, (1 << bits) - 1
        elif k == 'bool':
            t['lo'], t['hi'], t['bits'], t['signed'] = 0, 1, 8, False
        elif k == 'char':
            t['lo'], t['hi'], t['bits'], t['signed'] = 0, 0x10FFFF, 32, False
        lay = t.get('layout')
        t['size'] = lay['size']['num_bits'] // 8 if lay else None
        if k == 'adt':
            t['targs'] = [a['ty'] for a in t['args'] if 'ty' in a]
            if t['adt'] == 'enum':
                t['_raw_discr'] = True
                t['discr2var'] = {int(v['discr']): i for i, v in enumerate(t['variants'])}
                t['var2discr'] = [int(v['discr']) for v in t['variants']]
        elif k in ('fndef', 'closure', 'coroutine'):
            t['targs'] = [a['ty'] for a in t['args'] if 'ty' in a]

    def ty(self, i):
        return self.tys[i]

    def is_zst(self, tid):
        t = self.tys[tid]
        return t['size'] == 0

    def fn_name(self, iid):
        r = self.fns.get(iid) or self.exts.get(iid)
        return r['name'] if r else iid
