"""Deterministic thread scheduler for mirsym.

Every Rust thread runs on its own python thread, but only one of them runs at any time: control is
handed over explicitly at *visible operations* (lock acquire/release, atomic operations, spawn, join,
yield, sync points). Before each visible operation the scheduler makes a run-chosen decision (explored
like any other symbolic choice): continue with the current thread or switch to another runnable one.
A switch away from a thread that could have continued is a preemption; their number per run is bounded
(context-bounded exploration). A state in which no thread can run is a deadlock.

Sequential consistency is assumed.
"""
import threading

from .core import Interp, RustPanic, Unsupported, PathEnd, CheckFailed, Agg


class ThreadAbort(BaseException):
    """raised inside a parked thread when the path is over"""


class TState:
    __slots__ = ('tid', 'interp', 'sem', 'done', 'blocked_on', 'join_obj', 'pythread', 'waiting_join')

    def __init__(self, tid, interp):
        self.tid = tid
        self.interp = interp
        self.sem = threading.Semaphore(0)
        self.done = False
        self.blocked_on = None
        self.join_obj = None
        self.pythread = None
        self.waiting_join = None


class Scheduler:
    def __init__(self, main_interp, preemption_bound=2):
        self.main = main_interp
        self.ctx = main_interp.ctx
        self.bound = preemption_bound
        self.preemptions = 0
        self.threads = {0: TState(0, main_interp)}
        self.current = 0
        self.fatal = None
        self.aborting = False
        self.switches = 0
        self.points = 0
        self.site_hits = {}       # (thread, source position) -> visible operations of that thread there so far
        self.preempted_at = []    # [(thread, "file:line", nth visible operation of the thread at that position, thread switched to)]
        main_interp.model_state['sched'] = self

    # ---------------------------------------------------------------- helpers
    def runnable(self, t):
        if t.done:
            return False
        if t.blocked_on is not None:
            lk, mode = t.blocked_on
            if mode == 'read':
                return lk.writer is None
            return lk.writer is None and not lk.readers
        if t.waiting_join is not None:
            return t.waiting_join.done
        return True

    def others_runnable(self, me):
        return [t for tid, t in sorted(self.threads.items()) if tid != me and self.runnable(t)]

    def switch_to(self, me, t):
        """hand control to thread t and park the calling thread `me` until it is chosen again"""
        self.switches += 1
        self.current = t.tid
        t.sem.release()
        self.park(me)

    def park(self, me):
        ts = self.threads[me]
        ts.sem.acquire()
        if self.aborting:
            raise ThreadAbort()
        if self.fatal is not None and me == 0:
            f = self.fatal
            self.fatal = None
            raise f

    # ---------------------------------------------------------------- scheduling points
    def point(self, I, what):
        """called before a visible operation of the running thread"""
        me = I.thread_id
        self.points += 1
        if self.aborting:
            raise ThreadAbort()
        site = self.site_of(I)
        if site is not None:
            k = (me, site)
            self.site_hits[k] = self.site_hits.get(k, 0) + 1
        if self.preemptions >= self.bound:
            return
        others = self.others_runnable(me)
        if not others:
            return
        c = self.ctx.nondet_choice('sched', 1 + len(others))
        if c == 0:
            return
        self.preemptions += 1
        if site is not None:
            self.preempted_at.append((me, site, self.site_hits[(me, site)], others[c - 1].tid))
        self.switch_to(me, others[c - 1])

    def site_of(self, I):
        """source position (file:line) of the innermost frame of crate or harness code the thread is in"""
        for fr in reversed(I.stack):
            sp = fr.fn.get('tspans')
            if sp and fr.fn.get('krate') in ('sentinel_core', 'sentinel_tower', 'harness'):
                pos = sp[fr.at] if fr.at is not None and fr.at < len(sp) else None
                if pos and not pos.startswith('/rustc/') and '/.cargo/' not in pos:
                    return pos
        return None

    def block(self, I, lock):
        """the running thread cannot take `lock` now: run someone else (not a preemption)"""
        me = I.thread_id
        ts = self.threads[me]
        ts.blocked_on = lock
        try:
            self.yield_to_other(me, 'blocks on a lock')
        finally:
            ts.blocked_on = None

    def yield_to_other(self, me, why):
        others = self.others_runnable(me)
        if not others:
            holders = []
            for tid, t in self.threads.items():
                if not t.done:
                    holders.append('thread %d %s' % (tid, 'blocked' if (t.blocked_on or t.waiting_join) else 'running'))
            raise RustPanic('DEADLOCK: thread %d %s and no other thread can run (%s)' % (me, why, ', '.join(holders)), 'deadlock')
        c = self.ctx.nondet_choice('sched-blocked', len(others)) if len(others) > 1 else 0
        self.switch_to(me, others[c])

    # ---------------------------------------------------------------- thread life cycle
    def spawn(self, I, ft, closure):
        from .models import JoinObj, RUST_CALL
        tid = max(self.threads) + 1
        child = I.fork_thread(tid)
        ts = TState(tid, child)
        j = JoinObj()
        j.tid = tid
        ts.join_obj = j
        self.threads[tid] = ts

        def body():
            try:
                ts.sem.acquire()
                if self.aborting:
                    return
                try:
                    j.result = child.call_fn(ft['call_once'], [closure, Agg([])], RUST_CALL)
                except RustPanic as e:
                    if e.kind == 'deadlock':
                        raise
                    j.panic = e
                j.done = True
                ts.done = True
                self.finish(tid)
            except ThreadAbort:
                pass
            except BaseException as e:  # CheckFailed / Unsupported / PathEnd / deadlock / internal error: ends the path
                ts.done = True
                j.done = True
                self.fatal = e
                self.current = 0
                self.threads[0].sem.release()

        th = threading.Thread(target=body, daemon=True)
        ts.pythread = th
        th.start()
        # the spawn itself is a visible operation: the child may run first
        self.point(I, ('spawn', tid))
        return j

    def finish(self, tid):
        """thread tid ran to completion: pass control on"""
        others = [t for k, t in sorted(self.threads.items()) if k != tid and self.runnable(t)]
        if not others:
            # nobody can run although somebody is unfinished -> deadlock, reported in the main thread
            unfinished = [k for k, t in self.threads.items() if not t.done]
            if unfinished:
                self.fatal = RustPanic('DEADLOCK: threads %s are blocked forever' % unfinished, 'deadlock')
                self.current = 0
                self.threads[0].sem.release()
            return
        c = self.ctx.nondet_choice('sched-exit', len(others)) if len(others) > 1 else 0
        self.current = others[c].tid
        others[c].sem.release()

    def join(self, I, j):
        me = I.thread_id
        ts = self.threads[me]
        while not j.done:
            ts.waiting_join = j
            try:
                self.yield_to_other(me, 'joins thread %d' % j.tid)
            finally:
                ts.waiting_join = None

    def shutdown(self):
        """end of path: release every parked thread so that it unwinds and exits"""
        self.aborting = True
        for tid, t in self.threads.items():
            if tid != 0 and not t.done:
                t.sem.release()
        for tid, t in self.threads.items():
            if t.pythread is not None:
                t.pythread.join(timeout=5)
