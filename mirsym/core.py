"""mirsym core: a concrete-structure / symbolic-scalar interpreter for monomorphised MIR.

Values
  int/bool/char : python int/bool, or a z3 Int / Bool term when symbolic
  float         : python float (always concrete; f32 values are rounded on creation)
  aggregates    : Agg (struct, tuple, array, closure), Enum (variant index + fields)
  pointers      : Ptr(container, index, meta) -- container is any object with a list `.f`
  fn items      : FnItem(ty id), fn pointers: FnPtr(instance id)
Everything on the heap has a concrete shape; only scalars may be symbolic.
"""
import math
import struct
import sys
from . import sx
from .sx import E


class Unsupported(Exception):
    """The run met something the encoding does not cover: the verdict is inconclusive."""


class RustPanic(Exception):
    def __init__(self, msg, kind='panic'):
        Exception.__init__(self, msg)
        self.msg = msg
        self.kind = kind


class PathEnd(Exception):
    """assume(false) / infeasible path"""


class CheckFailed(Exception):
    def __init__(self, tag, model_values):
        Exception.__init__(self, tag)
        self.tag = tag
        self.values = model_values


class Uninit:
    __slots__ = ()

    def __repr__(self):
        return 'UNINIT'


UNINIT = Uninit()


class Agg:
    __slots__ = ('f',)

    def __init__(self, f):
        self.f = f

    def __repr__(self):
        return 'Agg%r' % (self.f,)


class Enum:
    __slots__ = ('v', 'f')

    def __init__(self, v, f):
        self.v = v
        self.f = f

    def __repr__(self):
        return 'Enum#%d%r' % (self.v, self.f)


class Cell:
    """a one-slot container (heap box, static, ...)"""
    __slots__ = ('f', 'tag')

    def __init__(self, v, tag=None):
        self.f = [v]
        self.tag = tag

    def __repr__(self):
        return 'Cell(%r)' % (self.f[0],)


class Ptr:
    __slots__ = ('c', 'i', 'meta')

    def __init__(self, c, i, meta=None):
        self.c = c
        self.i = i
        self.meta = meta

    def load(self):
        return self.c.f[self.i]

    def store(self, v):
        self.c.f[self.i] = v

    def __repr__(self):
        return 'Ptr(%s@%x,%r,%r)' % (type(self.c).__name__, id(self.c) & 0xffff, self.i, self.meta)


class Dyn:
    """fat pointer metadata of a trait object: the concrete type id"""
    __slots__ = ('ty',)

    def __init__(self, ty):
        self.ty = ty

    def __repr__(self):
        return 'Dyn(%d)' % self.ty


class FnItem:
    __slots__ = ('ty',)

    def __init__(self, ty):
        self.ty = ty

    def __repr__(self):
        return 'FnItem(%d)' % self.ty


class FnPtr:
    __slots__ = ('inst', 'closure')

    def __init__(self, inst, closure=False):
        self.inst = inst
        self.closure = closure   # a non-capturing closure coerced to fn pointer: called as (env, (args..))


class StrRef:
    """&str / &'static str: immutable python string"""
    __slots__ = ('s',)

    def __init__(self, s):
        self.s = s

    def __repr__(self):
        return 'StrRef(%r)' % self.s


class NullPtr:
    __slots__ = ('addr',)

    def __init__(self, addr=0):
        self.addr = addr


class Coro:
    """coroutine (async block) state: upvars, discriminant, per-variant saved locals"""
    __slots__ = ('f', 'v', 'vars')

    def __init__(self, f):
        self.f = f
        self.v = 0
        self.vars = {}


def is_sym(v):
    return type(v) is E


class SymF:
    """A symbolic f64 whose value is an exactly representable dyadic rational: `r` is a z3 Real term,
    |value| < 2**mag and value * 2**frac is an integer, with mag + frac <= 53, so that every
    operation performed on it (+, -, comparison, scaling by a power of two) is exact in IEEE-754
    binary64 and coincides with real arithmetic. Anything else concretises the operand first."""
    __slots__ = ('r', 'mag', 'frac')

    def __init__(self, r, mag, frac):
        self.r = r
        self.mag = mag
        self.frac = frac

    def __repr__(self):
        return 'SymF(%s)' % self.r


def symf_of_const(c):
    """concrete float -> SymF-compatible (real value, mag, frac) or None"""
    if c != c or c in (math.inf, -math.inf):
        return None
    for k in range(0, 13):
        x = c * (1 << k)
        if x == int(x):
            m = abs(int(x)).bit_length() - k + 1
            if m > 41:
                return None
            from fractions import Fraction
            return sx.RealVal(Fraction(int(x), 1 << k)), max(m, 1), k
    return None


def pow2_exp(c):
    if c <= 0 or c != c or c == math.inf:
        return None
    m, e = math.frexp(c)
    return e - 1 if m == 0.5 else None


def copy_val(v):
    """copy semantics for `Copy(place)`: aggregates are duplicated, objects with identity are shared"""
    if type(v) is Agg:
        return Agg([copy_val(x) for x in v.f])
    if type(v) is Enum:
        return Enum(v.v, [copy_val(x) for x in v.f])
    return v


def f32_round(x):
    try:
        return struct.unpack('f', struct.pack('f', x))[0]
    except OverflowError:
        return math.inf if x > 0 else -math.inf


class Frame:
    __slots__ = ('fn', 'f', 'bb', 'dest', 'ret_bb', 'unwind_bb', 'blocks', 'ltys', 'at')

    def __init__(self, fn, nlocals):
        self.fn = fn
        self.f = [UNINIT] * nlocals
        self.bb = 0
        self.at = 0       # block whose terminator is being executed
        self.dest = None
        self.ret_bb = None
        self.unwind_bb = None
        self.blocks = fn['_blocks']
        self.ltys = fn['locals']


RUST_CALL_NAMES = ('std::ops::Fn::call', 'std::ops::FnMut::call_mut', 'std::ops::FnOnce::call_once')


CLOSURE_PTR = {'name': '<closure fn pointer>'}
RUST_CALL = {'name': 'std::ops::FnOnce::call_once'}


def key1(d):
    for k in d:
        return k


class Interp:
    def __init__(self, prog, ctx, models):
        self.p = prog
        self.ctx = ctx
        self.models = models
        self.steps = 0
        self.max_steps = 400000
        self.stack = []
        self.static_cells = {}
        self.alloc_cells = {}
        self.const_cache = {}
        self.model_state = {}
        self.panicking = False
        self.thread_id = 0
        self.trace_calls = False
        self.depth = 0
        self.called = set()

    # ------------------------------------------------------------------ threads (single-threaded defaults)
    def sched_point(self, what):
        sc = self.model_state.get('sched')
        if sc is not None and not self.model_state.get('no_preempt'):
            sc.point(self, what)

    def block_on(self, lock, mode='write'):
        sc = self.model_state.get('sched')
        if sc is None:
            self.deadlock('single thread blocks on a lock that is held')
        sc.block(self, (lock, mode))

    def fork_thread(self, tid):
        """an interpreter for another thread of the same run: shares memory, statics and the path context"""
        child = Interp(self.p, self.ctx, self.models)
        child.static_cells = self.static_cells
        child.alloc_cells = self.alloc_cells
        child.const_cache = self.const_cache
        child.model_state = self.model_state
        child.called = self.called
        child.thread_id = tid
        child.max_steps = self.max_steps
        child.parent = self
        return child

    def deadlock(self, msg):
        raise RustPanic('DEADLOCK: ' + msg, 'deadlock')

    # ------------------------------------------------------------------ prep
    def prep_fn(self, fn):
        blocks = []
        for b in fn['blocks']:
            st = []
            for s in b['statements']:
                k = s['kind']
                if isinstance(k, str):
                    continue
                kk = key1(k)
                if kk in ('StorageLive', 'StorageDead', 'FakeRead', 'PlaceMention', 'AscribeUserType', 'Coverage', 'ConstEvalCounter', 'Nop'):
                    continue
                st.append((kk, k[kk]))
            t = b['terminator']['kind']
            if isinstance(t, str):
                term = (t, None)
            else:
                tk = key1(t)
                term = (tk, t[tk])
            blocks.append((st, term))
        fn['_blocks'] = blocks
        fn['_ptys'] = {}

    # ------------------------------------------------------------------ types
    def place_ty(self, frame, place):
        cache = frame.fn['_ptys']
        k = id(place)
        t = cache.get(k)
        if t is not None:
            return t
        t = frame.ltys[place['local']]
        tys = self.p.tys
        for pe in place['projection']:
            if pe == 'Deref':
                tr = tys[t]
                if tr['kind'] in ('ref', 'ptr'):
                    t = tr['pointee']
                elif tr['kind'] == 'adt' and tr['is_box']:
                    t = tr['targs'][0]
                else:
                    raise Unsupported('deref of type %s' % tr['str'])
            else:
                pk = key1(pe)
                if pk == 'Field':
                    t = pe['Field'][1]
                elif pk in ('Index', 'ConstantIndex'):
                    t = tys[t]['elem']
                elif pk in ('Downcast',):
                    pass
                elif pk == 'OpaqueCast':
                    t = pe['OpaqueCast']
                elif pk == 'Subslice':
                    pass
                else:
                    raise Unsupported('projection %s' % pk)
        cache[k] = t
        return t

    def nfields(self, tid, variant=0):
        t = self.p.tys[tid]
        k = t['kind']
        if k == 'adt':
            return len(t['variants'][variant]['fields'])
        if k == 'tuple':
            return len(t['fields'])
        if k == 'array':
            return t['len']
        if k == 'closure':
            up = t['targs'][-1]
            return len(self.p.tys[up]['fields'])
        raise Unsupported('nfields of %s' % t['str'])

    # ------------------------------------------------------------------ places
    def eval_place(self, frame, place, for_write=False):
        c = frame
        i = place['local']
        meta = None
        proj = place['projection']
        if not proj:
            return c, i, None
        tys = self.p.tys
        t = frame.ltys[i]
        variant = None
        for pe in proj:
            if pe == 'Deref':
                v = c.f[i]
                if type(v) is not Ptr:
                    if type(v) is Agg and tys[t]['kind'] == 'adt' and tys[t].get('is_box'):
                        v = self.box_ptr(v)
                    else:
                        raise Unsupported('deref of non-pointer value %r (%s) in %s' % (v, tys[t]['str'], frame.fn['name']))
                c, i, meta = v.c, v.i, v.meta
                tr = tys[t]
                t = tr['pointee'] if tr['kind'] != 'adt' else tr['targs'][0]
                variant = None
                continue
            pk = key1(pe)
            if pk == 'Field':
                fi, fty = pe['Field']
                v = c.f[i]
                tv = type(v)
                if tv is Agg or tv is Enum:
                    pass
                elif tv is Coro:
                    if variant is not None:
                        a = v.vars.get(variant)
                        if a is None:
                            a = v.vars[variant] = Agg([])
                        while len(a.f) <= fi:
                            a.f.append(UNINIT)
                        v = a
                elif v is UNINIT:
                    tr = tys[t]
                    if tr['kind'] == 'adt' and tr['adt'] == 'enum':
                        v = Enum(variant if variant is not None else 0, [UNINIT] * self.nfields(t, variant or 0))
                    elif tr['kind'] == 'coroutine':
                        raise Unsupported('uninit coroutine')
                    else:
                        v = Agg([UNINIT] * self.nfields(t))
                    c.f[i] = v
                else:
                    raise Unsupported('field of %r (%s) in %s' % (v, tys[t]['str'], frame.fn['name']))
                c, i, meta = v, fi, None
                t = fty
                variant = None
            elif pk == 'Index':
                idx = frame.f[pe['Index']]
                c, i, meta, t = self.index_place(c, i, meta, t, idx)
            elif pk == 'ConstantIndex':
                ci = pe['ConstantIndex']
                off = ci['offset']
                if ci['from_end']:
                    ln = meta if meta is not None else len(c.f[i].f)
                    off = ln - off
                c, i, meta, t = self.index_place(c, i, meta, t, off)
            elif pk == 'Downcast':
                variant = pe['Downcast']
                v = c.f[i]
                if type(v) is Enum and v.v != variant and not for_write:
                    raise Unsupported('downcast to inactive variant')
            elif pk == 'OpaqueCast':
                t = pe['OpaqueCast']
            elif pk == 'Subslice':
                ss = pe['Subslice']
                if meta is None:
                    raise Unsupported('subslice of array')
                ln = meta
                frm = ss['from']
                to = ln - ss['to'] if ss['from_end'] else ss['to']
                i = i + frm
                meta = to - frm
            else:
                raise Unsupported('projection ' + pk)
        return c, i, meta

    def index_place(self, c, i, meta, t, idx):
        tys = self.p.tys
        if meta is not None and not isinstance(meta, Dyn):
            ln = meta
            base_c, base_i = c, i
        else:
            arr = c.f[i]
            if type(arr) is not Agg:
                raise Unsupported('index into %r' % (arr,))
            ln = len(arr.f)
            base_c, base_i = arr, 0
        if is_sym(idx):
            idx = self.ctx.concretize(idx, 0, ln - 1 if not is_sym(ln) else None)
        if is_sym(ln):
            ln = self.ctx.concretize(ln)
        if idx < 0 or idx >= ln:
            raise RustPanic('index out of bounds: the len is %d but the index is %d' % (ln, idx))
        return base_c, base_i + idx, None, tys[t]['elem']

    def box_ptr(self, v):
        while type(v) is Agg:
            v = v.f[0]
        return v

    # ------------------------------------------------------------------ constants
    def eval_const(self, c):
        k = id(c)
        r = self.const_cache.get(k)
        if r is not None:
            return r[0]
        v = self._eval_const(c)
        self.const_cache[k] = (v,)
        return v

    def _eval_const(self, c):
        co = c['const_']
        tid = co['ty']
        kind = co['kind']
        if kind == 'ZeroSized':
            return self.zst(tid)
        kk = key1(kind)
        if kk == 'Allocated':
            a = kind['Allocated']
            alloc = {'bytes': a['bytes'], 'prov': [[o, p] for o, p in a['provenance']['ptrs']]}
            return self.decode(tid, alloc, 0)
        if kk == 'Ty':
            tc = kind['Ty']
            raise Unsupported('ty const %r' % (tc,))
        raise Unsupported('const kind %s' % kk)

    def zst(self, tid):
        t = self.p.tys[tid]
        k = t['kind']
        if k == 'fndef':
            return FnItem(tid)
        if k == 'adt':
            if t['adt'] == 'enum':
                # a ZST enum has one inhabited variant
                return Enum(0, [self.zst(f['ty']) for f in t['variants'][0]['fields']])
            return Agg([self.zst(f['ty']) for f in t['variants'][0]['fields']])
        if k == 'tuple':
            return Agg([self.zst(f) for f in t['fields']])
        if k == 'closure':
            # the captured (all zero-sized) upvars are the fields of the last generic argument, a tuple
            ups = [a['ty'] for a in t.get('args', []) if 'ty' in a]
            if ups and self.p.tys[ups[-1]]['kind'] == 'tuple':
                return Agg([self.zst(f) for f in self.p.tys[ups[-1]]['fields']])
            return Agg([])
        if k == 'array':
            return Agg([self.zst(t['elem']) for _ in range(t['len'] or 0)])
        if k == 'never':
            return UNINIT
        raise Unsupported('zst of %s' % t['str'])

    def read_uint(self, alloc, off, size):
        bs = alloc['bytes'][off:off + size]
        if any(b is None for b in bs):
            return None
        return int.from_bytes(bytes(bs), 'little')

    def decode(self, tid, alloc, off):
        """decode a value of type tid from constant memory"""
        t = self.p.tys[tid]
        k = t['kind']
        size = t['size']
        if k in ('int', 'bool', 'char'):
            u = self.read_uint(alloc, off, size)
            if u is None:
                return UNINIT
            if k == 'bool':
                return bool(u)
            if t['signed'] and u >= 1 << (size * 8 - 1):
                u -= 1 << (size * 8)
            return u
        if k == 'float':
            u = self.read_uint(alloc, off, size)
            if u is None:
                return UNINIT
            if size == 8:
                return struct.unpack('<d', u.to_bytes(8, 'little'))[0]
            return struct.unpack('<f', u.to_bytes(4, 'little'))[0]
        if k in ('ref', 'ptr'):
            return self.decode_ptr(t, alloc, off)
        if k == 'fnptr':
            for o, pid in alloc['prov']:
                if o == off:
                    a = self.p.allocs[pid]
                    if a['kind'] == 'fn':
                        return self.fnptr_of(a['inst'])
            return NullPtr(self.read_uint(alloc, off, 8) or 0)
        if k == 'tuple':
            offs = [o['num_bits'] // 8 for o in t['layout']['fields']['Arbitrary']['offsets']] if t['fields'] else []
            return Agg([self.decode(ft, alloc, off + o) for ft, o in zip(t['fields'], offs)])
        if k == 'array':
            n = t['len']
            if n == 0:
                return Agg([])
            stride = t['layout']['fields']['Array']['stride']['num_bits'] // 8
            return Agg([self.decode(t['elem'], alloc, off + j * stride) for j in range(n)])
        if k == 'adt':
            return self.decode_adt(t, alloc, off)
        if k == 'fndef':
            return FnItem(tid)
        if k == 'closure':
            up = self.p.tys[t['targs'][-1]]
            if not up['fields']:
                return Agg([])
        raise Unsupported('decode constant of type %s' % t['str'])

    def fnptr_of(self, inst):
        n = self.p.fn_name(inst)
        return FnPtr(inst, n.startswith('<{closure@') and ' as std::ops::FnOnce<' in n)

    def decode_ptr(self, t, alloc, off):
        pointee = self.p.tys[t['pointee']]
        prov = None
        for o, pid in alloc['prov']:
            if o == off:
                prov = pid
        addr = self.read_uint(alloc, off, 8)
        pk = pointee['kind']
        if prov is None:
            if addr is None:
                return UNINIT
            if pk in ('slice', 'str'):
                ln = self.read_uint(alloc, off + 8, 8)
                if pk == 'str':
                    return StrRef('')
                return Ptr(Agg([]), 0, 0)
            return NullPtr(addr)
        a = self.p.allocs[prov]
        ak = a['kind']
        if ak == 'static':
            cell = self.static_cell(a['static'])
            return Ptr(cell, 0)
        if ak == 'fn':
            return self.fnptr_of(a['inst'])
        if ak == 'mem':
            m = a['alloc']
            if pk == 'str':
                ln = self.read_uint(alloc, off + 8, 8)
                bs = bytes(m['bytes'][addr:addr + ln])
                return StrRef(bs.decode('utf-8', 'replace'))
            if pk == 'slice':
                ln = self.read_uint(alloc, off + 8, 8)
                key = (prov, t['pointee'], addr, ln)
                arr = self.alloc_cells.get(key)
                if arr is None:
                    et = pointee['elem']
                    es = self.p.tys[et]['size']
                    arr = Agg([self.decode(et, m, addr + j * es) for j in range(ln)])
                    self.alloc_cells[key] = arr
                return Ptr(arr, 0, ln)
            if pk == 'dyn':
                raise Unsupported('constant &dyn')
            key = (prov, t['pointee'], addr)
            cell = self.alloc_cells.get(key)
            if cell is None:
                cell = Cell(self.decode(t['pointee'], m, addr), 'const')
                self.alloc_cells[key] = cell
            return Ptr(cell, 0)
        raise Unsupported('pointer constant into %s alloc' % ak)

    def decode_adt(self, t, alloc, off):
        lay = t['layout']
        name = t['name']
        dm = self.models.decoders.get(name)
        if dm is not None:
            return dm(self, t, alloc, off)
        if t['adt'] == 'union':
            return UNINIT
        var = lay['variants']
        if t['adt'] == 'struct':
            offs = [o['num_bits'] // 8 for o in lay['fields']['Arbitrary']['offsets']]
            fs = t['variants'][0]['fields']
            return Agg([self.decode(f['ty'], alloc, off + o) for f, o in zip(fs, offs)])
        # enum
        if 'Single' in var:
            vi = var['Single']['index']
            offs = [o['num_bits'] // 8 for o in lay['fields']['Arbitrary']['offsets']] if lay['fields'] != 'Primitive' else []
            fs = t['variants'][vi]['fields']
            return Enum(vi, [self.decode(f['ty'], alloc, off + o) for f, o in zip(fs, offs)])
        if 'Empty' in var if isinstance(var, dict) else var == 'Empty':
            return UNINIT
        mv = var['Multiple']
        tag = mv['tag']['Initialized']['value']
        tag_off = lay['fields']['Arbitrary']['offsets'][mv['tag_field']]['num_bits'] // 8
        if 'Int' in tag:
            tsize = {'I8': 1, 'I16': 2, 'I32': 4, 'I64': 8, 'I128': 16}[tag['Int']['length']]
            tsigned = tag['Int']['signed']
        else:
            tsize, tsigned = 8, False
        raw = self.read_uint(alloc, off + tag_off, tsize)
        if raw is None:
            return UNINIT
        enc = mv['tag_encoding']
        if enc == 'Direct':
            d = raw
            if tsigned and d >= 1 << (tsize * 8 - 1):
                d -= 1 << (tsize * 8)
            vi = t['discr2var'].get(d)
            if vi is None:
                # discriminant type may be wider/signed: compare modulo tag size
                for dd, vv in t['discr2var'].items():
                    if dd % (1 << (tsize * 8)) == raw:
                        vi = vv
            if vi is None:
                raise Unsupported('bad enum tag %d for %s' % (raw, t['str']))
        else:
            n = enc['Niche']
            start = n['niche_variants']['start']
            end = n['niche_variants']['end']
            rel = (raw - n['niche_start']) % (1 << (tsize * 8))
            if rel <= end - start:
                vi = start + rel
            else:
                vi = n['untagged_variant']
        offs = [o['num_bits'] // 8 for o in mv['variants'][vi]['offsets']]
        fs = t['variants'][vi]['fields']
        return Enum(vi, [self.decode(f['ty'], alloc, off + o) for f, o in zip(fs, offs)])

    def static_cell(self, sid):
        cell = self.static_cells.get(sid)
        if cell is None:
            s = self.p.statics[sid]
            init = s['init']
            if 'error' in init:
                raise Unsupported('static %s has no initializer' % s['name'])
            cell = Cell(UNINIT, 'static:' + s['name'])
            self.static_cells[sid] = cell
            cell.f[0] = self.decode(s['ty'], init, 0)
        return cell

    # ------------------------------------------------------------------ operands
    def eval_operand(self, frame, op):
        k = key1(op)
        if k == 'Copy':
            c, i, meta = self.eval_place(frame, op['Copy'])
            v = c.f[i]
            if meta is not None:
                raise Unsupported('copy of unsized place')
            tv = type(v)
            if tv is Agg or tv is Enum:
                return copy_val(v)
            if v is UNINIT:
                tid = self.place_ty(frame, op['Copy'])
                if self.p.tys[tid]['size'] == 0:
                    return self.zst(tid)
            return v
        if k == 'Move':
            pl = op['Move']
            if not pl['projection']:
                v = frame.f[pl['local']]
            else:
                c, i, meta = self.eval_place(frame, pl)
                v = c.f[i]
            if v is UNINIT:
                tid = self.place_ty(frame, pl)
                if self.p.tys[tid]['size'] == 0:
                    return self.zst(tid)
            return v
        if k == 'Constant':
            v = self.eval_const(op['Constant'])
            tv = type(v)
            if tv is Agg or tv is Enum:
                return copy_val(v)
            return v
        if k == 'RuntimeChecks':
            return op['RuntimeChecks'] == 'OverflowChecks'
        raise Unsupported('operand ' + k)

    def operand_ty(self, frame, op):
        k = key1(op)
        if k == 'Constant':
            return op['Constant']['const_']['ty']
        if k == 'RuntimeChecks':
            return None
        return self.place_ty(frame, op[k])

    # ------------------------------------------------------------------ arithmetic
    def int_wrap(self, v, t):
        """wrap math integer v into type t"""
        lo, hi = t['lo'], t['hi']
        if not is_sym(v):
            if lo <= v <= hi:
                return v
            m = 1 << t['bits']
            v %= m
            if v > hi:
                v -= m
            return v
        if self.ctx.implied(sx.And(v >= lo, v <= hi)):
            return v
        m = 1 << t['bits']
        r = v % m
        if t['signed']:
            r = sx.If(r > hi, r - m, r)
        return r

    def trunc_div(self, a, b, signed):
        if not is_sym(a) and not is_sym(b):
            q = abs(a) // abs(b)
            return q if (a >= 0) == (b >= 0) else -q
        if not signed:
            return a / b
        if not is_sym(b) and b > 0:
            return sx.If(a >= 0, a / b, -((-a) / b))
        return sx.If(a >= 0, sx.If(b > 0, a / b, -(a / (-b))), sx.If(b > 0, -((-a) / b), (-a) / (-b)))

    def trunc_rem(self, a, b, signed):
        if not is_sym(a) and not is_sym(b):
            r = abs(a) % abs(b)
            return r if a >= 0 else -r
        if not signed:
            return a % b
        q = self.trunc_div(a, b, signed)
        return a - q * b

    def binop(self, op, a, b, ta, frame=None):
        """ta: type record of the left operand"""
        k = ta['kind']
        if k == 'float':
            return self.float_binop(op, a, b, ta)
        if k == 'bool':
            return self.bool_binop(op, a, b)
        if k in ('ref', 'ptr', 'fnptr'):
            return self.ptr_binop(op, a, b)
        if k not in ('int', 'char'):
            raise Unsupported('binop %s on %s' % (op, ta['str']))
        sym = is_sym(a) or is_sym(b)
        if op in ('Add', 'AddUnchecked'):
            r = a + b
            return self.int_wrap(r, ta) if op == 'Add' else r
        if op in ('Sub', 'SubUnchecked'):
            r = a - b
            return self.int_wrap(r, ta) if op == 'Sub' else r
        if op in ('Mul', 'MulUnchecked'):
            r = a * b
            return self.int_wrap(r, ta) if op == 'Mul' else r
        if op == 'Div':
            return self.trunc_div(a, b, ta['signed'])
        if op == 'Rem':
            return self.trunc_rem(a, b, ta['signed'])
        if op == 'Eq':
            return a == b
        if op == 'Ne':
            return a != b
        if op == 'Lt':
            return a < b
        if op == 'Le':
            return a <= b
        if op == 'Gt':
            return a > b
        if op == 'Ge':
            return a >= b
        if op == 'Cmp':
            if sym:
                lt = self.ctx.branch(a < b)
                if lt:
                    return self.ordering(-1)
                eq = self.ctx.branch(a == b)
                return self.ordering(0 if eq else 1)
            return self.ordering(-1 if a < b else (0 if a == b else 1))
        if sym:
            a = self.ctx.concretize(a) if is_sym(a) else a
            b = self.ctx.concretize(b) if is_sym(b) else b
        m = (1 << ta['bits']) - 1
        if op == 'BitAnd':
            return self.int_wrap((a & m) & (b & m), ta)
        if op == 'BitOr':
            return self.int_wrap((a & m) | (b & m), ta)
        if op == 'BitXor':
            return self.int_wrap((a & m) ^ (b & m), ta)
        if op in ('Shl', 'ShlUnchecked'):
            return self.int_wrap((a & m) << (b % ta['bits']), ta)
        if op in ('Shr', 'ShrUnchecked'):
            return a >> (b % ta['bits'])
        raise Unsupported('int binop ' + op)

    def ordering(self, v):
        # core::cmp::Ordering: Less=-1 (variant 0), Equal=0 (variant 1), Greater=1 (variant 2)
        return Enum(v + 1, [])

    def bool_binop(self, op, a, b):
        sym = is_sym(a) or is_sym(b)
        if op == 'BitAnd':
            return sx.And(a, b) if sym else (a and b)
        if op == 'BitOr':
            return sx.Or(a, b) if sym else (a or b)
        if op == 'BitXor':
            return sx.Xor(a, b) if sym else (a != b)
        if op == 'Eq':
            return a == b
        if op == 'Ne':
            return sx.Xor(a, b) if sym else a != b
        if sym:
            raise Unsupported('bool binop %s on symbolic' % op)
        a, b = int(a), int(b)
        return {'Lt': a < b, 'Le': a <= b, 'Gt': a > b, 'Ge': a >= b}[op]

    def symf_concretize(self, x):
        q = self.ctx.concretize_real(x.r)
        return q.numerator / q.denominator

    def float_binop(self, op, a, b, ta):
        if type(a) is SymF or type(b) is SymF:
            r = self.symf_binop(op, a, b, ta)
            if r is not None:
                return r[0]
            if type(a) is SymF:
                a = self.symf_concretize(a)
            if type(b) is SymF:
                b = self.symf_concretize(b)
        if is_sym(a) or is_sym(b):
            raise Unsupported('symbolic float')
        f32 = ta['bits'] == 32
        if op == 'Add':
            r = a + b
        elif op == 'Sub':
            r = a - b
        elif op == 'Mul':
            r = a * b
        elif op == 'Div':
            if b == 0:
                if a == 0 or a != a:
                    r = math.nan
                else:
                    r = math.copysign(math.inf, a) * math.copysign(1.0, b)
            else:
                r = a / b
        elif op == 'Rem':
            r = math.fmod(a, b) if b != 0 else math.nan
        elif op == 'Eq':
            return a == b
        elif op == 'Ne':
            return a != b
        elif op == 'Lt':
            return a < b
        elif op == 'Le':
            return a <= b
        elif op == 'Gt':
            return a > b
        elif op == 'Ge':
            return a >= b
        else:
            raise Unsupported('float binop ' + op)
        return f32_round(r) if f32 else r

    def symf_binop(self, op, a, b, ta):
        """exact symbolic float operation, or None when an operand has to be concretised"""
        if ta['bits'] != 64:
            return None
        if op in ('Mul', 'Div'):
            # scaling by a concrete power of two only
            if type(a) is SymF and type(b) is float:
                e = pow2_exp(b)
                if e is None or abs(e) > 8:
                    return None
                if op == 'Div':
                    e = -e
                mag, frac = a.mag + e, max(0, a.frac - e)
                if mag + frac > 53 or mag < -40:
                    return None
                from fractions import Fraction
                return (SymF(a.r * Fraction(2) ** e, max(mag, 1), frac),)
            if op == 'Mul' and type(b) is SymF and type(a) is float:
                return self.symf_binop('Mul', b, a, ta)
            return None
        xs = []
        cmp_only = op not in ('Add', 'Sub')
        for v in (a, b):
            if type(v) is SymF:
                xs.append((v.r, v.mag, v.frac))
            else:
                c = symf_of_const(v)
                if c is None:
                    if cmp_only and v == v and v not in (math.inf, -math.inf):
                        # a comparison creates no new float: the exact rational value of the constant is enough
                        from fractions import Fraction
                        c = (sx.RealVal(Fraction(v)), 99, 99)
                    elif cmp_only and v in (math.inf, -math.inf):
                        big = sx.RealVal(10 ** 400 if v > 0 else -10 ** 400)
                        c = (big, 99, 99)
                    else:
                        return None
                xs.append(c)
        (ra, ma, fa), (rb, mb, fb) = xs
        if op == 'Add' or op == 'Sub':
            mag, frac = max(ma, mb) + 1, max(fa, fb)
            if mag + frac > 53:
                return None
            return (SymF(ra + rb if op == 'Add' else ra - rb, mag, frac),)
        if op == 'Eq':
            return (ra == rb,)
        if op == 'Ne':
            return (ra != rb,)
        if op == 'Lt':
            return (ra < rb,)
        if op == 'Le':
            return (ra <= rb,)
        if op == 'Gt':
            return (ra > rb,)
        if op == 'Ge':
            return (ra >= rb,)
        return None

    def ptr_binop(self, op, a, b):
        if op == 'Offset':
            if is_sym(b):
                b = self.ctx.concretize(b)
            return Ptr(a.c, a.i + b, a.meta)
        same = self.ptr_eq(a, b)
        if op == 'Eq':
            return same
        if op == 'Ne':
            return not same
        raise Unsupported('pointer comparison ' + op)

    def ptr_eq(self, a, b):
        ta, tb = type(a), type(b)
        if ta is Ptr and tb is Ptr:
            return a.c is b.c and a.i == b.i
        if ta is NullPtr and tb is NullPtr:
            return a.addr == b.addr
        if ta is FnPtr and tb is FnPtr:
            return a.inst == b.inst
        if (ta is NullPtr) != (tb is NullPtr):
            return False
        if hasattr(a, 'ptr_identity') and hasattr(b, 'ptr_identity'):
            return a.ptr_identity() is b.ptr_identity()
        raise Unsupported('ptr_eq %r %r' % (a, b))

    # ------------------------------------------------------------------ casts
    def cast(self, frame, kind, op, target):
        v = self.eval_operand(frame, op)
        tt = self.p.tys[target]
        if isinstance(kind, dict):
            pc = kind['PointerCoercion']
            if pc == 'Unsize':
                src = self.p.tys[self.operand_ty(frame, op)]
                return self.unsize(v, src, tt)
            if isinstance(pc, dict) and 'ReifyFnPointer' in pc or pc == 'ReifyFnPointer':
                ft = self.p.tys[v.ty]
                return FnPtr(ft['fnptr_inst'] or ft['inst'])
            if isinstance(pc, dict) and 'ClosureFnPointer' in pc:
                src = self.p.tys[self.operand_ty(frame, op)]
                return FnPtr(src['call_once'], True)
            if pc in ('MutToConstPointer', 'UnsafeFnPointer'):
                return v
            if pc == 'ArrayToPointer':
                arr = v.c.f[v.i]
                return Ptr(arr, 0)
            raise Unsupported('pointer coercion %r' % (pc,))
        if kind == 'IntToInt':
            st = self.p.tys[self.operand_ty(frame, op)]
            if type(v) is Enum:
                v = st['var2discr'][v.v]
            if st['kind'] == 'bool':
                v = sx.If(v, 1, 0) if is_sym(v) else int(v)
            return self.int_wrap(v, tt)
        if kind == 'IntToFloat':
            st = self.p.tys[self.operand_ty(frame, op)]
            if is_sym(v):
                if tt['bits'] == 64 and self.ctx.implied(sx.And(v > -(1 << 40), v < (1 << 40))):
                    return SymF(sx.ToReal(v), 41, 0)
                v = self.ctx.concretize(v)
            r = float(v)
            return f32_round(r) if tt['bits'] == 32 else r
        if kind == 'FloatToInt':
            if type(v) is SymF:
                if v.frac == 0 and tt['bits'] >= 64:
                    # an integer-valued float below 2**53: the conversion is exact (saturation cannot apply
                    # above; below zero only for unsigned targets)
                    r = sx.ToInt(v.r)
                    if tt['signed'] or self.ctx.implied(v.r >= 0):
                        return r
                    return sx.If(v.r >= 0, r, 0)
                v = self.symf_concretize(v)
            if v != v:
                return 0
            if v == math.inf:
                return tt['hi']
            if v == -math.inf:
                return tt['lo']
            r = int(v)
            return max(tt['lo'], min(tt['hi'], r))
        if kind == 'FloatToFloat':
            if type(v) is SymF:
                v = self.symf_concretize(v)
            return f32_round(v) if tt['bits'] == 32 else v
        if kind in ('PtrToPtr', 'FnPtrToPtr', 'Subtype'):
            if type(v) is Ptr:
                st = self.p.tys[self.operand_ty(frame, op)]
                sp = self.p.tys[st['pointee']]
                tp = self.p.tys[tt['pointee']]
                if sp['kind'] == 'array' and tp['kind'] != 'array' and sp['elem'] == tt['pointee']:
                    return Ptr(v.c.f[v.i], 0)
                if v.meta is not None and tp['kind'] not in ('slice', 'str', 'dyn'):
                    # fat -> thin
                    if sp['kind'] in ('slice',):
                        return Ptr(v.c, v.i)
                    if sp['kind'] == 'dyn':
                        return Ptr(v.c, v.i)
            return v
        if kind == 'Transmute':
            st = self.p.tys[self.operand_ty(frame, op)]
            return self.transmute(v, st, tt)
        if kind == 'PointerExposeAddress':
            if type(v) is NullPtr:
                return v.addr
            return 0x10000 + (id(v.c) % 0x1000000) * 64 + (v.i if isinstance(v.i, int) else 0) * 8
        if kind == 'PointerWithExposedProvenance':
            return NullPtr(v)
        raise Unsupported('cast %r' % (kind,))

    def transmute(self, v, st, tt):
        sk, tk = st['kind'], tt['kind']
        if sk == 'pat' or tk == 'pat':
            return v
        if type(v) is SymF:
            v = self.symf_concretize(v)
        if sk == 'float' and tk == 'int':
            if st['bits'] == 64:
                return struct.unpack('<Q', struct.pack('<d', v))[0]
            return struct.unpack('<I', struct.pack('<f', v))[0]
        if sk == 'int' and tk == 'float':
            if is_sym(v):
                v = self.ctx.concretize(v)
            if tt['bits'] == 64:
                return struct.unpack('<d', struct.pack('<Q', v))[0]
            return struct.unpack('<f', struct.pack('<I', v))[0]
        if sk == 'int' and tk == 'int' and st['bits'] == tt['bits']:
            return self.int_wrap(v, tt)
        if sk in ('ref', 'ptr', 'fnptr') and tk in ('ref', 'ptr', 'fnptr'):
            return v
        if sk == 'adt' and tk in ('ptr', 'ref'):
            # a pointer wrapper (NonNull, Unique, Box without allocator data): the single non-ZST field, recursively
            w = v
            while type(w) is Agg:
                nz = [x for x in w.f if not (type(x) is Agg and not x.f)]
                if len(nz) != 1:
                    break
                w = nz[0]
            if type(w) in (Ptr, NullPtr):
                return w
        if sk in ('ptr', 'ref') and tk == 'int':
            # the address of a pointer is not modelled; alignment / null checks get an aligned non-null value
            if type(v) is NullPtr:
                return v.addr
            return 0x10000 + (id(v.c) % 0x1000000) * 4096
        if sk == 'adt' and tk == 'adt' and st['size'] == tt['size']:
            # wrappers with one non-ZST field on both sides (ManuallyDrop, MaybeUninit, newtypes)
            return v
        raise Unsupported('transmute %s -> %s' % (st['str'], tt['str']))

    def unsize(self, v, src, dst):
        """unsizing coercion of pointer-like value v from type src to dst"""
        sk = src['kind']
        if sk == 'pat':
            return self.unsize(v, self.p.tys[src['inner']], self.p.tys[dst['inner']])
        if sk in ('ref', 'ptr'):
            sp = self.p.tys[src['pointee']]
            dp = self.p.tys[dst['pointee']]
            return self.unsize_ptr(v, sp, dp)
        if sk == 'adt':
            h = self.models.unsizers.get(src['name'])
            if h is not None:
                return h(self, v, src, dst)
            # generic smart pointer (Box, Pin<Box>, NonNull, ...): rebuild along the differing field
            sv = src['variants'][0]['fields']
            dv = dst['variants'][0]['fields']
            nf = list(v.f)
            for j, (sf, df) in enumerate(zip(sv, dv)):
                if sf['ty'] != df['ty']:
                    nf[j] = self.unsize(v.f[j], self.p.tys[sf['ty']], self.p.tys[df['ty']])
            return Agg(nf)
        raise Unsupported('unsize %s' % src['str'])

    def tail_dyn(self, sp, dp):
        """concrete type behind a (possibly struct-tail) unsizing sp -> dp, as Dyn metadata"""
        ts, td = sp, dp
        while td['kind'] == 'adt':
            fs, fd = ts['variants'][0]['fields'], td['variants'][0]['fields']
            ts, td = self.p.tys[fs[-1]['ty']], self.p.tys[fd[-1]['ty']]
        if td['kind'] == 'dyn':
            if ts['kind'] == 'dyn':
                return None
            return Dyn(ts['id'])
        raise Unsupported('unsizing %s -> %s' % (sp['str'], dp['str']))

    def unsize_ptr(self, v, sp, dp):
        if dp['kind'] == 'slice' and sp['kind'] == 'array':
            arr = v.c.f[v.i]
            return Ptr(arr, 0, len(arr.f))
        if dp['kind'] == 'dyn':
            if sp['kind'] == 'dyn':
                return v
            return Ptr(v.c, v.i, Dyn(sp['id']))
        if dp['kind'] == 'adt' and sp['kind'] == 'adt':
            # struct tail unsizing: find the concrete tail type
            tail_s, tail_d = sp, dp
            while tail_d['kind'] == 'adt':
                fs, fd = tail_s['variants'][0]['fields'], tail_d['variants'][0]['fields']
                tail_s, tail_d = self.p.tys[fs[-1]['ty']], self.p.tys[fd[-1]['ty']]
            if tail_d['kind'] == 'dyn':
                return Ptr(v.c, v.i, Dyn(tail_s['id']))
        raise Unsupported('unsize pointer %s -> %s' % (sp['str'], dp['str']))

    # ------------------------------------------------------------------ rvalues
    def eval_rvalue(self, frame, rv, dest_place):
        k = key1(rv)
        d = rv[k]
        if k == 'Use':
            return self.eval_operand(frame, d[0] if isinstance(d, list) else d)
        if k == 'Ref' or k == 'AddressOf':
            c, i, meta = self.eval_place(frame, d[2] if k == 'Ref' else d[1])
            if c is frame:
                # pointer to a local: locals live in the frame's list
                return Ptr(frame, i, meta)
            return Ptr(c, i, meta)
        if k == 'BinaryOp':
            a = self.eval_operand(frame, d[1])
            b = self.eval_operand(frame, d[2])
            return self.binop(d[0], a, b, self.p.tys[self.operand_ty(frame, d[1])])
        if k == 'CheckedBinaryOp':
            a = self.eval_operand(frame, d[1])
            b = self.eval_operand(frame, d[2])
            ta = self.p.tys[self.operand_ty(frame, d[1])]
            op = d[0]
            if op == 'Add':
                r = a + b
            elif op == 'Sub':
                r = a - b
            elif op == 'Mul':
                r = a * b
            elif op in ('Shl', 'Shr'):
                if is_sym(b):
                    b = self.ctx.concretize(b)
                ovf = b < 0 or b >= ta['bits']
                return Agg([self.binop(op, a, b % ta['bits'], ta), ovf])
            else:
                raise Unsupported('checked ' + op)
            if is_sym(r):
                ovf = sx.Or(r < ta['lo'], r > ta['hi'])
                return Agg([r, ovf])
            ovf = r < ta['lo'] or r > ta['hi']
            return Agg([self.int_wrap(r, ta) if ovf else r, ovf])
        if k == 'UnaryOp':
            v = self.eval_operand(frame, d[1])
            if d[0] == 'Not':
                if isinstance(v, bool):
                    return not v
                if is_sym(v):
                    if sx.is_bool(v):
                        return sx.Not(v)
                    raise Unsupported('bitwise not on symbolic int')
                t = self.p.tys[self.operand_ty(frame, d[1])]
                return self.int_wrap(~v, t)
            if d[0] == 'Neg':
                if isinstance(v, float):
                    return -v
                if type(v) is SymF:
                    return SymF(-v.r, v.mag, v.frac)
                t = self.p.tys[self.operand_ty(frame, d[1])]
                return self.int_wrap(-v, t)
            if d[0] == 'PtrMetadata':
                if type(v) is StrRef:
                    return len(v.s.encode())
                m = v.meta
                return Agg([]) if m is None else m
            raise Unsupported('unop ' + d[0])
        if k == 'Cast':
            return self.cast(frame, d[0], d[1], d[2])
        if k == 'Aggregate':
            return self.aggregate(frame, d[0], d[1], dest_place)
        if k == 'Discriminant':
            c, i, meta = self.eval_place(frame, d)
            v = c.f[i]
            if v is UNINIT:
                tid = self.place_ty(frame, d)
                if self.p.tys[tid]['size'] == 0:
                    v = self.zst(tid)
            tv = type(v)
            if tv is Enum:
                t = self.p.tys[self.place_ty(frame, d)]
                return t['var2discr'][v.v]
            if tv is Coro:
                return v.v
            if tv is Agg:
                return 0
            raise Unsupported('discriminant of %r' % (v,))
        if k == 'Len':
            c, i, meta = self.eval_place(frame, d)
            if meta is not None:
                return meta
            return len(c.f[i].f)
        if k == 'CopyForDeref':
            c, i, meta = self.eval_place(frame, d)
            return c.f[i]
        if k == 'Repeat':
            v = self.eval_operand(frame, d[0])
            n = self.tyconst_usize(d[1])
            return Agg([copy_val(v) for _ in range(n)])
        if k == 'ThreadLocalRef':
            return self.models.thread_local_ref(self, d)
        raise Unsupported('rvalue ' + k)

    def tyconst_usize(self, tc):
        kind = tc['kind']
        if 'Value' in kind:
            ty, a = kind['Value']
            return int.from_bytes(bytes(a['bytes']), 'little')
        raise Unsupported('ty const %r' % (tc,))

    def aggregate(self, frame, kind, ops, dest_place):
        vals = [self.eval_operand(frame, o) for o in ops]
        if kind == 'Tuple':
            return Agg(vals)
        k = key1(kind)
        if k == 'Array' or k == 'Closure':
            return Agg(vals)
        if k == 'Adt':
            a = kind['Adt']
            variant = a[1]
            t = self.p.tys[self.place_ty(frame, dest_place)]
            if t['kind'] != 'adt':
                raise Unsupported('adt aggregate into %s' % t['str'])
            if t['adt'] == 'enum':
                return Enum(variant, vals)
            if t['adt'] == 'union':
                # one slot per union field; only the active one is initialised
                fs = [UNINIT] * len(t['variants'][0]['fields'])
                act = a[4] if len(a) > 4 and isinstance(a[4], int) else 0
                fs[act] = vals[0] if vals else UNINIT
                return Agg(fs)
            return Agg(vals)
        if k == 'RawPtr':
            data, meta = vals
            if type(data) is Ptr:
                if type(meta) is Agg:
                    return Ptr(data.c, data.i)
                return Ptr(data.c, data.i, meta)
            return data
        if k == 'Coroutine':
            return Coro(vals)
        raise Unsupported('aggregate ' + k)

    # ------------------------------------------------------------------ calls
    def resolve_callee(self, frame, func):
        """-> (instance id, FnDef type record or None)"""
        k = key1(func)
        if k == 'Constant':
            tid = func['Constant']['const_']['ty']
            t = self.p.tys[tid]
            if t['kind'] == 'fndef':
                return t['inst'], t
        v = self.eval_operand(frame, func)
        if type(v) is FnPtr:
            return v.inst, (CLOSURE_PTR if v.closure else None)
        if type(v) is FnItem:
            t = self.p.tys[v.ty]
            return t['inst'], t
        raise Unsupported('call through %r' % (v,))

    def call_fn(self, iid, args, fty=None):
        """synchronous call (used by models): run instance iid with args to completion, return its value"""
        base = len(self.stack)
        ret = Cell(UNINIT)
        self.push_call(iid, args, (ret, 0), None, None, fty)
        if len(self.stack) > base:
            self.run(base)
        return ret.f[0]

    def virtual_target(self, iid, args):
        # receiver is args[0]: a dyn pointer, or a smart pointer around one
        recv = args[0]
        meta = self.dyn_meta(recv)
        if meta is None:
            raise Unsupported('virtual call on non-dyn receiver %r' % (recv,))
        tgt = self.p.vts.get((iid, meta.ty))
        if tgt is None:
            raise Unsupported('no vtable entry for %s on %s' % (self.p.fn_name(iid.split(':', 1)[1]) if ':' in iid else iid, self.p.tys[meta.ty]['str']))
        return tgt

    def dyn_meta(self, v):
        tv = type(v)
        if tv is Ptr:
            return v.meta if isinstance(v.meta, Dyn) else None
        if tv is Agg and v.f:
            return self.dyn_meta(v.f[0])
        m = getattr(v, 'meta', None)
        return m if isinstance(m, Dyn) else None

    def push_call(self, iid, args, dest, ret_bb, unwind_bb, fty=None):
        """dest: (container, index) or None. Either pushes a frame or (externals) stores the result directly."""
        if iid is None:
            raise Unsupported('unresolved callee')
        if iid[0] == 'V' and ':' in iid[:6]:
            iid = self.virtual_target(iid, args)
        if fty is CLOSURE_PTR:
            args = [Agg([]), Agg(list(args))]
            fty = RUST_CALL
        fn = self.p.fns.get(iid)
        if fn is None:
            ext = self.p.exts.get(iid)
            if ext is None:
                raise Unsupported('unknown instance ' + iid)
            if self.trace_calls:
                print('  ' * len(self.stack) + 'EXT ' + ext['name'], file=sys.stderr)
            self.called.add(iid)
            v = self.models.call(self, ext, args)
            if dest is not None:
                dest[0].f[dest[1]] = v
            return False
        if '_blocks' not in fn:
            self.prep_fn(fn)
        if self.trace_calls:
            print('  ' * len(self.stack) + fn['name'], file=sys.stderr)
        self.called.add(iid)
        fr = Frame(fn, len(fn['locals']))
        n = fn['arg_count']
        if fty is not None and fn['spread_arg'] is None and fty['name'] in RUST_CALL_NAMES and len(args) == 2 and type(args[1]) is Agg:
            # "rust-call" convention (self, (args..)) reaching a body with untupled parameters
            args = [args[0]] + list(args[1].f)
        if len(args) != n:
            raise Unsupported('arity mismatch calling %s: %d args for %d' % (fn['name'], len(args), n))
        for j in range(n):
            fr.f[j + 1] = args[j]
        fr.dest = dest
        fr.ret_bb = ret_bb
        fr.unwind_bb = unwind_bb
        self.stack.append(fr)
        if len(self.stack) > 400:
            raise Unsupported('call depth')
        return True

    def drop_value_at(self, c, i, tid, meta=None):
        """run drop glue for the value of type tid stored at c.f[i]"""
        t = self.p.tys[tid]
        if t['kind'] == 'dyn':
            if not isinstance(meta, Dyn):
                raise Unsupported('drop of dyn without metadata')
            tid = meta.ty
            t = self.p.tys[tid]
            meta = None
        if t['kind'] == 'slice':
            et = t['elem']
            if self.p.tys[et].get('drop'):
                for j in range(meta):
                    self.drop_value_at(c, i + j, et)
            return
        glue = t.get('drop')
        if glue is None:
            return
        if c.f[i] is UNINIT:
            return
        self.call_fn(glue, [Ptr(c, i, meta)])

    # ------------------------------------------------------------------ main loop
    def run(self, base=0):
        stack = self.stack
        ctx = self.ctx
        while len(stack) > base:
            frame = stack[-1]
            ctx.cur = frame
            frame.at = frame.bb
            stmts, term = frame.blocks[frame.bb]
            self.steps += len(stmts) + 1
            if self.steps > self.max_steps:
                raise Unsupported('step limit')
            try:
                for kk, d in stmts:
                    if kk == 'Assign':
                        pl = d[0]
                        v = self.eval_rvalue(frame, d[1], pl)
                        if not pl['projection']:
                            frame.f[pl['local']] = v
                        else:
                            c, i, meta = self.eval_place(frame, pl, True)
                            c.f[i] = v
                    elif kk == 'SetDiscriminant':
                        c, i, meta = self.eval_place(frame, d['place'], True)
                        v = c.f[i]
                        vi = d['variant_index']
                        if type(v) is Enum:
                            if v.v != vi:
                                t = self.p.tys[self.place_ty(frame, d['place'])]
                                c.f[i] = Enum(vi, [UNINIT] * self.nfields(t['id'], vi))
                        elif type(v) is Coro:
                            v.v = vi
                        elif v is UNINIT:
                            t = self.p.tys[self.place_ty(frame, d['place'])]
                            c.f[i] = Enum(vi, [UNINIT] * self.nfields(t['id'], vi))
                        else:
                            raise Unsupported('set discriminant of %r' % (v,))
                    elif kk == 'Intrinsic':
                        ik = key1(d)
                        if ik == 'Assume':
                            pass
                        else:
                            raise Unsupported('intrinsic statement ' + ik)
                    else:
                        raise Unsupported('statement ' + kk)
                tk, td = term
                if tk == 'Goto':
                    frame.bb = td['target']
                elif tk == 'SwitchInt':
                    v = self.eval_operand(frame, td['discr'])
                    tg = td['targets']
                    if '_signed_done' not in tg:
                        # branch values are bit patterns: give them the sign of the scrutinee's type
                        tg['_signed_done'] = True
                        stid = self.operand_ty(frame, td['discr'])
                        st = self.p.tys[stid] if stid is not None else {'kind': 'bool'}
                        if st['kind'] == 'int' and st.get('signed'):
                            half, full = 1 << (st['bits'] - 1), 1 << st['bits']
                            tg['branches'] = [[(val - full if val >= half else val), bb] for val, bb in tg['branches']]
                    if is_sym(v):
                        nxt = None
                        isb = sx.is_bool(v)
                        for val, bb in tg['branches']:
                            cond = (v if val else sx.Not(v)) if isb else (v == val)
                            if ctx.branch(cond):
                                nxt = bb
                                break
                        frame.bb = tg['otherwise'] if nxt is None else nxt
                    else:
                        if v is True:
                            v = 1
                        elif v is False:
                            v = 0
                        elif type(v) is not int:
                            raise Unsupported('switch on %r' % (v,))
                        nxt = tg['otherwise']
                        for val, bb in tg['branches']:
                            if val == v:
                                nxt = bb
                                break
                        frame.bb = nxt
                elif tk == 'Call':
                    iid, fty = self.resolve_callee(frame, td['func'])
                    args = [self.eval_operand(frame, a) for a in td['args']]
                    dp = td['destination']
                    if dp['projection']:
                        dc, di, _ = self.eval_place(frame, dp, True)
                    else:
                        dc, di = frame, dp['local']
                    tgt = td['target']
                    uw = td['unwind']
                    ub = uw['Cleanup'] if isinstance(uw, dict) else None
                    frame.bb = tgt  # where to continue after return (None = diverging)
                    frame.unwind_bb = ub
                    self.push_call(iid, args, (dc, di), tgt, ub, fty)
                    if tgt is None and stack[-1] is frame:
                        raise Unsupported('diverging external call returned: ' + self.p.fn_name(iid))
                elif tk == 'Return':
                    stack.pop()
                    d = frame.dest
                    if d is not None:
                        d[0].f[d[1]] = frame.f[0]
                elif tk == 'Drop':
                    frame.bb = td['target']
                    uw = td['unwind']
                    frame.unwind_bb = uw['Cleanup'] if isinstance(uw, dict) else None
                    pl = td['place']
                    tid = self.place_ty(frame, pl)
                    t = self.p.tys[tid]
                    if t.get('drop') or t['kind'] in ('dyn', 'slice'):
                        c, i, meta = self.eval_place(frame, pl)
                        if c.f[i] is not UNINIT:
                            t2 = t
                            if t['kind'] == 'dyn':
                                t2 = self.p.tys[meta.ty]
                                meta = None
                            if t2['kind'] == 'slice':
                                self.drop_value_at(c, i, t2['id'], meta)
                            elif t2.get('drop'):
                                self.push_call(t2['drop'], [Ptr(c, i, meta)], None, None, None)
                elif tk == 'Assert':
                    v = self.eval_operand(frame, td['cond'])
                    exp = td['expected']
                    if is_sym(v):
                        ok = ctx.branch(v if exp else sx.Not(v))
                    else:
                        ok = (v == exp)
                    if ok:
                        frame.bb = td['target']
                    else:
                        uw = td['unwind']
                        frame.unwind_bb = uw['Cleanup'] if isinstance(uw, dict) else None
                        raise RustPanic(self.assert_msg(td['msg']), 'assert')
                elif tk == 'Unreachable':
                    raise Unsupported('reached Unreachable in ' + frame.fn['name'])
                elif tk == 'Resume':
                    raise Unsupported('Resume outside unwinding')
                else:
                    raise Unsupported('terminator ' + tk)
            except RustPanic as e:
                self.unwind(e, base)

    def assert_msg(self, m):
        if isinstance(m, str):
            return m
        k = key1(m)
        if k == 'Overflow':
            return 'attempt to %s with overflow' % m[k][0].lower()
        return k

    def unwind(self, exc, base):
        """Run cleanup blocks of the frames above `base`, then re-raise to the caller of run()."""
        stack = self.stack
        if exc.kind == 'deadlock':
            # not a panic: the run simply cannot continue; no unwinding, no destructors
            del stack[base:]
            raise exc
        prev = self.panicking
        self.panicking = True
        try:
            while len(stack) > base:
                fr = stack[-1]
                ub = fr.unwind_bb
                fr.unwind_bb = None
                if ub is not None:
                    fr.bb = ub
                    self.run_cleanup(fr, len(stack) - 1)
                stack.pop()
        finally:
            self.panicking = prev
        raise exc

    def run_cleanup(self, frame, depth):
        """execute cleanup blocks of `frame` until Resume"""
        stack = self.stack
        while True:
            frame.at = frame.bb
            stmts, term = frame.blocks[frame.bb]
            self.steps += len(stmts) + 1
            for kk, d in stmts:
                if kk == 'Assign':
                    pl = d[0]
                    v = self.eval_rvalue(frame, d[1], pl)
                    c, i, meta = self.eval_place(frame, pl, True)
                    c.f[i] = v
                elif kk == 'SetDiscriminant' or kk == 'Intrinsic':
                    pass
            tk, td = term
            if tk == 'Resume' or tk == 'Abort' or tk == 'Unreachable' or tk == 'Return':
                return
            if tk == 'Goto':
                frame.bb = td['target']
            elif tk == 'Drop':
                frame.bb = td['target']
                pl = td['place']
                tid = self.place_ty(frame, pl)
                t = self.p.tys[tid]
                if t.get('drop') or t['kind'] in ('dyn', 'slice'):
                    c, i, meta = self.eval_place(frame, pl)
                    if c.f[i] is not UNINIT:
                        try:
                            self.drop_value_at(c, i, tid, meta)
                        except RustPanic:
                            raise Unsupported('panic while unwinding (abort)')
            elif tk == 'SwitchInt':
                v = self.eval_operand(frame, td['discr'])
                if is_sym(v):
                    raise Unsupported('symbolic switch in cleanup')
                v = int(v)
                nxt = td['targets']['otherwise']
                for val, bb in td['targets']['branches']:
                    if val == v:
                        nxt = bb
                frame.bb = nxt
            elif tk == 'Call':
                iid, fty = self.resolve_callee(frame, td['func'])
                args = [self.eval_operand(frame, a) for a in td['args']]
                dp = td['destination']
                dc, di, _ = self.eval_place(frame, dp, True)
                frame.bb = td['target']
                r = self.call_fn(iid, args, fty)
                dc.f[di] = r
            else:
                raise Unsupported('cleanup terminator ' + tk)
