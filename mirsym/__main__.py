import sys, json, time
from .prog import Program
from .explore import explore, run_one
from .models import Models

def main():
    a = sys.argv[1:]
    dump, root = a[0], a[1]
    shape = [int(x) for x in a[2].split(',')]
    prog = Program(dump)
    if len(a) > 3 and a[3] == '--concrete':
        vals = [int(x) for x in a[4].split(',')] if a[4] != '-' else []
        models = Models(prog)
        outcome, ctx, I = run_one(prog, models, 'harness::' + root, shape, concrete=vals, trace_calls='--trace' in a)
        print(outcome, ctx.observations, I.steps)
        return
    t0 = time.time()
    r = explore(prog, 'harness::' + root, shape, max_seconds=float(a[3]) if len(a) > 3 else 600)
    print('paths', r.paths, 'completed', r.completed, 'infeasible', r.infeasible, 'nontrivial', r.nontrivial, 'steps', r.steps,
          'queries', r.stats.queries, 'solver_s %.2f' % r.stats.solver_s, 'wall %.2f' % r.wall, 'budget_exhausted', r.budget_exhausted)
    print('cex', r.cex[:5])
    print('panics', r.panics[:5])
    print('unsupported', r.unsupported[:5])
    print('covers', r.covers, 'checks', r.checks)
    for k, v in sorted(r.fork_sites.items(), key=lambda x: -x[1])[:25]: print('  fork', v, k)

main()
