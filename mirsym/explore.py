"""Path exploration driver: depth-first re-execution with decision prefixes."""
import time
import traceback
from .core import Interp, Agg, Unsupported, RustPanic, PathEnd, CheckFailed
from .ctx import PathCtx, Stats
from .models import Models


class Result:
    def __init__(self):
        self.paths = 0
        self.completed = 0
        self.infeasible = 0
        self.panics = []          # (msg, values, trace)
        self.cex = []             # (tag, values)
        self.unsupported = []     # messages
        self.nontrivial = 0
        self.steps = 0
        self.max_steps = 0
        self.max_depth = 0
        self.covers = set()
        self.checks = {}
        self.stats = Stats()
        self.samples = []
        self.called = set()
        self.budget_exhausted = False
        self.wall = 0.0
        self.fork_sites = {}
        self.rest = []
        self.forks = 0
        self.reexec = 0


def shape_value(shape):
    p = list(shape) + [0] * (8 - len(shape))
    return Agg([Agg(p)])


def run_one(prog, models, root, shape, prefix=(), concrete=None, stats=None, trace_calls=False, sample_every=0, expect_panic=False, sample_model=False, ctx_hook=None):
    ctx = PathCtx(prefix, concrete=concrete, stats=stats, sample_every=sample_every)
    I = Interp(prog, ctx, models)
    ctx.interp = I
    if ctx_hook is not None:
        ctx_hook(ctx)
    I.trace_calls = trace_calls
    iid = prog.roots.get(root)
    if iid is None:
        raise Unsupported('no root ' + root)
    outcome = ('ok', None)
    try:
        I.call_fn(iid, [shape_value(shape)])
    except PathEnd as e:
        outcome = ('end', str(e))
    except CheckFailed as e:
        outcome = ('cex', (e.tag, e.values))
    except RustPanic as e:
        vals = ctx.any_model_values()
        outcome = ('panic', (e.msg, vals))
    except Unsupported as e:
        where = I.stack[-1].fn['name'] if I.stack else '?'
        outcome = ('unsupported', '%s (in %s)' % (e, where))
    except RecursionError:
        outcome = ('unsupported', 'python recursion limit')
    sc = I.model_state.get('sched')
    if sc is not None:
        sc.shutdown()
        ctx.sched_stats = (sc.points, sc.switches, sc.preemptions, len(sc.threads))
        ctx.preempted_at = list(sc.preempted_at)
    if outcome[0] == 'ok' and sample_model:
        ctx.sample_model = ctx.any_model_values()
    ctx.close()
    return outcome, ctx, I


def explore(prog, root, shape, max_paths=100000, max_seconds=600, models=None, sample_every=50, keep_samples=3, stop_on_cex=False,
            initial_work=None, return_rest=False):
    models = models or Models(prog)
    res = Result()
    t0 = time.time()
    work = [list(w) for w in initial_work] if initial_work is not None else [[]]
    while work:
        if res.paths >= max_paths or time.time() - t0 > max_seconds:
            if return_rest:
                res.rest = work
            else:
                res.budget_exhausted = True
            break
        prefix = work.pop()
        outcome, ctx, I = run_one(prog, models, root, shape, prefix, stats=res.stats, sample_every=sample_every, sample_model=len(res.samples) < keep_samples)
        res.paths += 1
        res.steps += I.steps
        res.max_steps = max(res.max_steps, I.steps)
        res.max_depth = max(res.max_depth, len(ctx.trace))
        res.called |= I.called
        work.extend(ctx.alts)
        for k2, v2 in ctx.fork_sites.items():
            res.fork_sites[k2] = res.fork_sites.get(k2, 0) + v2
        kind, data = outcome
        res.covers.update(ctx.covers)
        for t in ctx.checks_reached:
            res.checks[t] = res.checks.get(t, 0) + 1
        if kind == 'ok':
            res.completed += 1
            if ctx.nsym_decisions > 0 and ctx.checks_reached:
                res.nontrivial += 1
            if len(res.samples) < keep_samples:
                res.samples.append({'decisions': len(ctx.trace), 'forks': ctx.nsym_decisions,
                                    'model': getattr(ctx, 'sample_model', None), 'checks': list(ctx.checks_reached)})
        elif kind == 'end':
            res.infeasible += 1
        elif kind == 'cex':
            res.cex.append((data[0], data[1], getattr(ctx, 'preempted_at', [])))
            if stop_on_cex:
                break
        elif kind == 'panic':
            res.panics.append((data[0], data[1], getattr(ctx, 'preempted_at', [])))
        elif kind == 'unsupported':
            res.unsupported.append(data)
            break
    res.wall = time.time() - t0
    return res
