"""Thin symbolic-expression layer directly over z3's C API (z3core).

The high-level z3 Python classes cost ~50us per operation (coercions, sort checks, reference
counting); the interpreter builds hundreds of thousands of small terms per second, so terms are
raw AST handles in a per-path, non-reference-counted Z3 context that is deleted with the path.
Only what the interpreter needs is provided: Int / Bool / Real terms, linear arithmetic with
div/mod, comparisons, ite, boolean connectives, a solver with assumptions and model evaluation.
"""
import z3
from z3 import z3core as zc
from fractions import Fraction


class Ctx:
    """the process-wide reference-counted Z3 context; one solver per explored path"""
    __slots__ = ('c', 'ints', 'int_sort', 'bool_sort', 'real_sort', 'true', 'false', 'solver', 'reals', 'timeout_sym')

    def __init__(self):
        cfg = zc.Z3_mk_config()
        zc.Z3_set_param_value(cfg, 'model', 'true')
        self.c = zc.Z3_mk_context_rc(cfg)
        zc.Z3_del_config(cfg)
        c = self.c
        self.int_sort = zc.Z3_mk_int_sort(c)
        zc.Z3_inc_ref(c, zc.Z3_sort_to_ast(c, self.int_sort))
        self.bool_sort = zc.Z3_mk_bool_sort(c)
        zc.Z3_inc_ref(c, zc.Z3_sort_to_ast(c, self.bool_sort))
        self.real_sort = zc.Z3_mk_real_sort(c)
        zc.Z3_inc_ref(c, zc.Z3_sort_to_ast(c, self.real_sort))
        self.ints = {}
        self.reals = {}
        self.solver = None
        self.true = None
        self.false = None
        self.timeout_sym = zc.Z3_mk_string_symbol(c, 'timeout')

    def new_solver(self, timeout_ms):
        c = self.c
        if self.solver is not None:
            zc.Z3_solver_dec_ref(c, self.solver)
        self.solver = zc.Z3_mk_solver(c)
        zc.Z3_solver_inc_ref(c, self.solver)
        p = zc.Z3_mk_params(c)
        zc.Z3_params_inc_ref(c, p)
        # a wall-clock timeout makes z3 start timer threads, which do not survive fork(); the deterministic
        # resource limit bounds a query instead (about 1e6 units per second of solving)
        zc.Z3_params_set_uint(c, p, zc.Z3_mk_string_symbol(c, 'rlimit'), timeout_ms * 2000)
        zc.Z3_solver_set_params(c, self.solver, p)
        zc.Z3_params_dec_ref(c, p)
        if len(self.ints) > 20000:
            for v in self.ints.values():
                zc.Z3_dec_ref(c, v)
            self.ints = {}
        if len(self.reals) > 20000:
            for v in self.reals.values():
                zc.Z3_dec_ref(c, v)
            self.reals = {}

    def close(self):
        pass


C = None  # the process-wide context


def get_ctx(timeout_ms=30000):
    global C
    if C is None:
        C = Ctx()
        C.true = E(zc.Z3_mk_true(C.c), 'b')
        C.false = E(zc.Z3_mk_false(C.c), 'b')
    C.new_solver(timeout_ms)
    return C


def set_ctx(ctx):
    pass


class E:
    """a symbolic term: a = raw Z3 ast, k = 'i' (Int), 'b' (Bool) or 'r' (Real)"""
    __slots__ = ('a', 'k')

    def __init__(self, a, k):
        self.a = a
        self.k = k
        zc.Z3_inc_ref(C.c, a)

    def __del__(self):
        try:
            zc.Z3_dec_ref(C.c, self.a)
        except Exception:
            pass

    def __bool__(self):
        raise TypeError('symbolic term used as a python bool: %s' % self)

    def __repr__(self):
        return zc.Z3_ast_to_string(C.c, self.a)

    def get_id(self):
        return zc.Z3_get_ast_id(C.c, self.a)

    # arithmetic (Int unless a Real operand is involved)
    def __add__(self, o):
        return _arith(zc.Z3_mk_add, self, o)

    def __radd__(self, o):
        return _arith(zc.Z3_mk_add, o, self)

    def __sub__(self, o):
        return _arith(zc.Z3_mk_sub, self, o)

    def __rsub__(self, o):
        return _arith(zc.Z3_mk_sub, o, self)

    def __mul__(self, o):
        return _arith(zc.Z3_mk_mul, self, o)

    def __rmul__(self, o):
        return _arith(zc.Z3_mk_mul, o, self)

    def __neg__(self):
        return E(zc.Z3_mk_unary_minus(C.c, self.a), self.k)

    def __truediv__(self, o):
        a, b, k = _pair(self, o)
        return E(zc.Z3_mk_div(C.c, a, b), k)

    def __rtruediv__(self, o):
        a, b, k = _pair(o, self)
        return E(zc.Z3_mk_div(C.c, a, b), k)

    def __mod__(self, o):
        a, b, k = _pair(self, o)
        return E(zc.Z3_mk_mod(C.c, a, b), 'i')

    def __rmod__(self, o):
        a, b, k = _pair(o, self)
        return E(zc.Z3_mk_mod(C.c, a, b), 'i')

    # comparisons
    def __lt__(self, o):
        a, b, k = _pair(self, o)
        return E(zc.Z3_mk_lt(C.c, a, b), 'b')

    def __le__(self, o):
        a, b, k = _pair(self, o)
        return E(zc.Z3_mk_le(C.c, a, b), 'b')

    def __gt__(self, o):
        a, b, k = _pair(self, o)
        return E(zc.Z3_mk_gt(C.c, a, b), 'b')

    def __ge__(self, o):
        a, b, k = _pair(self, o)
        return E(zc.Z3_mk_ge(C.c, a, b), 'b')

    def __eq__(self, o):
        a, b, k = _pair(self, o)
        return E(zc.Z3_mk_eq(C.c, a, b), 'b')

    def __ne__(self, o):
        a, b, k = _pair(self, o)
        return E(zc.Z3_mk_not(C.c, zc.Z3_mk_eq(C.c, a, b)), 'b')

    __hash__ = None


def ival(n):
    v = C.ints.get(n)
    if v is None:
        v = zc.Z3_mk_numeral(C.c, str(n), C.int_sort)
        zc.Z3_inc_ref(C.c, v)
        C.ints[n] = v
    return v


def rval(q):
    """Fraction / int -> Real numeral ast"""
    v = C.reals.get(q)
    if v is None:
        q2 = Fraction(q)
        v = zc.Z3_mk_numeral(C.c, '%d/%d' % (q2.numerator, q2.denominator), C.real_sort)
        zc.Z3_inc_ref(C.c, v)
        C.reals[q] = v
    return v


def RealVal(q):
    return E(rval(q), 'r')


def _raw(x, want):
    """python value or E -> (ast, kind) coerced to sort `want` ('i', 'r', 'b')"""
    if type(x) is E:
        if x.k == want:
            return x.a
        if x.k == 'i' and want == 'r':
            return zc.Z3_mk_int2real(C.c, x.a)
        raise TypeError('sort mismatch: %s term where %s expected' % (x.k, want))
    if want == 'b':
        return C.true.a if x else C.false.a
    if want == 'i':
        if isinstance(x, bool):
            raise TypeError('bool where int expected')
        return ival(int(x))
    if isinstance(x, float):
        return rval(Fraction(x))
    return rval(Fraction(x))


def _pair(a, b):
    ka = a.k if type(a) is E else None
    kb = b.k if type(b) is E else None
    if ka == 'r' or kb == 'r' or isinstance(a, Fraction) or isinstance(b, Fraction):
        k = 'r'
    elif ka == 'b' or kb == 'b':
        k = 'b'
    else:
        k = 'i'
    return _raw(a, k), _raw(b, k), k


def _arith(f, a, b):
    x, y, k = _pair(a, b)
    arr = (zc.Ast * 2)(x, y)
    return E(f(C.c, 2, arr), k)


def is_bool(x):
    return type(x) is E and x.k == 'b'


def is_true(x):
    return x is True or (type(x) is E and x.a.value == C.true.a.value)


def is_false(x):
    return x is False or (type(x) is E and x.a.value == C.false.a.value)


def Int(name):
    return E(zc.Z3_mk_const(C.c, zc.Z3_mk_string_symbol(C.c, name), C.int_sort), 'i')


def ToReal(x):
    return E(zc.Z3_mk_int2real(C.c, x.a), 'r')


def ToInt(x):
    """real -> int (floor); exact for integer-valued terms"""
    return E(zc.Z3_mk_real2int(C.c, x.a), 'i')


def Not(x):
    if x is True:
        return False
    if x is False:
        return True
    return E(zc.Z3_mk_not(C.c, x.a), 'b')


def And(a, b):
    if a is True:
        return b
    if b is True:
        return a
    if a is False or b is False:
        return False
    arr = (zc.Ast * 2)(a.a, b.a)
    return E(zc.Z3_mk_and(C.c, 2, arr), 'b')


def Or(a, b):
    if a is False:
        return b
    if b is False:
        return a
    if a is True or b is True:
        return True
    arr = (zc.Ast * 2)(a.a, b.a)
    return E(zc.Z3_mk_or(C.c, 2, arr), 'b')


def Xor(a, b):
    return E(zc.Z3_mk_xor(C.c, _raw(a, 'b'), _raw(b, 'b')), 'b')


def If(c, a, b):
    if c is True:
        return a
    if c is False:
        return b
    x, y, k = _pair(a, b)
    return E(zc.Z3_mk_ite(C.c, c.a, x, y), k)


# ----------------------------------------------------------------------------- solver
def assert_(x):
    if x is True:
        return
    if x is False:
        x = C.false
    zc.Z3_solver_assert(C.c, C.solver, x.a)


def check(*assumptions):
    """-> 'sat' | 'unsat' | 'unknown'"""
    n = len(assumptions)
    if n:
        arr = (zc.Ast * n)(*[(C.true if a is True else C.false if a is False else a).a for a in assumptions])
        r = zc.Z3_solver_check_assumptions(C.c, C.solver, n, arr)
    else:
        r = zc.Z3_solver_check(C.c, C.solver)
    return 'sat' if r == 1 else ('unsat' if r == -1 else 'unknown')


def reason_unknown():
    return zc.Z3_solver_get_reason_unknown(C.c, C.solver)


class Model:
    __slots__ = ('m',)

    def __init__(self):
        self.m = zc.Z3_solver_get_model(C.c, C.solver)
        zc.Z3_model_inc_ref(C.c, self.m)

    def __del__(self):
        try:
            if C is not None and C.c is not None:
                zc.Z3_model_dec_ref(C.c, self.m)
        except Exception:
            pass

    def eval(self, x):
        """value of term x under the model (with completion): python int / bool / Fraction"""
        r = (zc.Ast * 1)()
        ok = zc.Z3_model_eval(C.c, self.m, x.a, True, r)
        if not ok:
            raise RuntimeError('model eval failed')
        v = r[0]
        zc.Z3_inc_ref(C.c, v)
        try:
            if x.k == 'b':
                return zc.Z3_get_bool_value(C.c, v) == 1
            s = zc.Z3_get_numeral_string(C.c, v)
        finally:
            zc.Z3_dec_ref(C.c, v)
        if x.k == 'i':
            return int(s)
        return Fraction(s)


def to_smt2(assumptions=()):
    """the solver's assertions plus assumptions as an SMT-LIB2 script"""
    s = zc.Z3_solver_to_string(C.c, C.solver)
    for a in assumptions:
        s += '\n(assert %s)' % zc.Z3_ast_to_string(C.c, a.a)
    return s + '\n(check-sat)\n'
