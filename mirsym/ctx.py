"""Path context: decision prefix, solver, inputs, counterexample extraction."""
import time
import z3
from .core import PathEnd, CheckFailed, Unsupported, is_sym


class Stats:
    def __init__(self):
        self.queries = 0
        self.solver_s = 0.0
        self.max_query_s = 0.0
        self.smt_samples = []


class PathCtx:
    def __init__(self, prefix=(), concrete=None, stats=None, timeout_ms=30000, sample_every=0):
        self.prefix = list(prefix)
        self.pos = 0
        self.trace = []
        self.alts = []
        self.concrete = list(concrete) if concrete is not None else None
        self.cpos = 0
        self.inputs = []      # (tag, var-or-int, lo, hi)
        self.stats = stats or Stats()
        self.solver = z3.Solver()
        self.solver.set('timeout', timeout_ms)
        self.model = None
        self.nsym_decisions = 0
        self.checks_reached = []
        self.covers = []
        self.observations = []
        self.sample_every = sample_every
        self.fresh = 0
        self.nondet = []
        self.cur = None
        self.fork_sites = {}

    # -------------------------------------------------------------- solver plumbing
    def _check(self, *assumptions):
        t0 = time.time()
        r = self.solver.check(*assumptions)
        dt = time.time() - t0
        st = self.stats
        st.queries += 1
        st.solver_s += dt
        if dt > st.max_query_s:
            st.max_query_s = dt
        if self.sample_every and st.queries % self.sample_every == 0 and len(st.smt_samples) < 40:
            try:
                s2 = z3.Solver()
                s2.add(self.solver.assertions())
                for a in assumptions:
                    s2.add(a)
                st.smt_samples.append((s2.to_smt2(), str(r)))
            except Exception:
                pass
        if r == z3.unknown:
            raise Unsupported('solver returned unknown: %s' % self.solver.reason_unknown())
        return r == z3.sat

    def add(self, c, keeps_model=False):
        self.solver.add(c)
        if not keeps_model:
            self.model = None

    def get_model(self):
        if self.model is None:
            if not self._check():
                raise PathEnd('infeasible')
            self.model = self.solver.model()
        return self.model

    def in_replay(self):
        return self.pos < len(self.prefix)

    def _next(self, kind):
        e = self.prefix[self.pos]
        self.pos += 1
        if e[0] != kind and not (kind == 'v' and e[0] == 'ne'):
            raise Unsupported('replay divergence: expected %s got %r at %d' % (kind, e, self.pos - 1))
        return e

    # -------------------------------------------------------------- decisions
    def branch(self, cond):
        if cond is True or cond is False:
            return cond
        if z3.is_true(cond):
            return True
        if z3.is_false(cond):
            return False
        if self.pos < len(self.prefix):
            e = self._next('b')
            val = e[1]
            self.add(cond if val else z3.Not(cond))
            self.trace.append(e)
            if len(e) > 2 and e[2]:
                self.nsym_decisions += 1
            return val
        m = self.get_model()
        mv = z3.is_true(m.eval(cond, model_completion=True))
        other = z3.Not(cond) if mv else cond
        forked = self._check(other)
        if forked:
            self.alts.append(self.trace + [('b', not mv, True)])
            self.nsym_decisions += 1
            self.note_fork()
        self.solver.add(cond if mv else z3.Not(cond))  # current model still satisfies it
        self.trace.append(('b', mv, forked))
        return mv

    def note_fork(self):
        fr = self.cur
        if fr is not None:
            k = '%s bb%d' % (fr.fn['name'], fr.bb)
            self.fork_sites[k] = self.fork_sites.get(k, 0) + 1

    def implied(self, cond):
        """is cond a consequence of the path condition?"""
        if cond is True or cond is False:
            return cond
        if self.pos < len(self.prefix):
            e = self._next('i')
            self.trace.append(e)
            return e[1]
        m = self.get_model()
        if not z3.is_true(m.eval(cond, model_completion=True)):
            r = False
        else:
            r = not self._check(z3.Not(cond))
        self.trace.append(('i', r))
        return r

    def concretize(self, expr, lo=None, hi=None):
        if not is_sym(expr):
            return expr
        n = 0
        while True:
            if self.pos < len(self.prefix):
                e = self._next('v')
                self.trace.append(e)
                if e[0] == 'v':
                    self.add(expr == e[1])
                    return e[1]
                self.add(expr != e[1])
                n += 1
                continue
            m = self.get_model()
            val = m.eval(expr, model_completion=True)
            if z3.is_bool(expr):
                val = z3.is_true(val)
            else:
                val = val.as_long()
            if self._check(expr != val):
                n += 1
                if n > 300:
                    raise Unsupported('concretisation of a value with more than 300 feasible values')
                self.alts.append(self.trace + [('ne', val)])
                self.nsym_decisions += 1
                self.note_fork()
            self.solver.add(expr == val)
            self.trace.append(('v', val))
            return val

    def nondet_choice(self, tag, n):
        """an environment choice in range(n) that is not a harness input (hash order, sort ties)"""
        if n <= 1:
            return 0
        if self.concrete is not None:
            c = 0
        else:
            v = z3.Int('%s?%d' % (tag, self.fresh))
            self.fresh += 1
            self.add(z3.And(v >= 0, v < n))
            c = self.concretize(v)
        self.nondet.append((tag, c, n))
        return c

    def concretize_real(self, expr):
        """like concretize, for a Real-sorted term; returns a Fraction"""
        from fractions import Fraction
        n = 0
        while True:
            if self.pos < len(self.prefix):
                e = self._next('v')
                self.trace.append(e)
                q = Fraction(e[1][0], e[1][1])
                c = z3.RealVal(e[1][0]) / e[1][1]
                if e[0] == 'v':
                    self.add(expr == c)
                    return q
                self.add(expr != c)
                n += 1
                continue
            m = self.get_model()
            val = m.eval(expr, model_completion=True)
            q = Fraction(val.numerator_as_long(), val.denominator_as_long())
            c = z3.RealVal(q.numerator) / q.denominator
            if self._check(expr != c):
                n += 1
                if n > 300:
                    raise Unsupported('concretisation of a real with more than 300 feasible values')
                self.alts.append(self.trace + [('ne', (q.numerator, q.denominator))])
                self.nsym_decisions += 1
            self.solver.add(expr == c)
            self.trace.append(('v', (q.numerator, q.denominator)))
            return q

    # -------------------------------------------------------------- harness runtime
    def fresh_input(self, tag, lo, hi):
        if self.concrete is not None:
            if self.cpos >= len(self.concrete):
                raise PathEnd('concrete inputs exhausted')
            v = self.concrete[self.cpos]
            self.cpos += 1
            if v < lo or v > hi:
                raise PathEnd('concrete input out of range')
            self.inputs.append((tag, v, lo, hi))
            return v
        if lo == hi:
            self.inputs.append((tag, lo, lo, hi))
            return lo
        v = z3.Int('%s!%d' % (tag, len(self.inputs)))
        self.inputs.append((tag, v, lo, hi))
        self.add(z3.And(v >= lo, v <= hi))
        return v

    def assume(self, c):
        if c is True:
            return
        if c is False:
            raise PathEnd('assume(false)')
        if self.pos < len(self.prefix):
            self.add(c)
            return
        m = self.model
        if m is not None and z3.is_true(m.eval(c, model_completion=True)):
            self.solver.add(c)
        else:
            self.add(c)
            self.get_model()  # raises PathEnd when infeasible

    def check_prop(self, c, tag):
        self.checks_reached.append(tag)
        if c is True:
            return
        if c is False:
            raise CheckFailed(tag, self.input_values(None))
        if z3.is_true(c):
            return
        if self.pos < len(self.prefix):
            e = self._next('c')
            self.trace.append(e)
            return
        if self._check(z3.Not(c)):
            m = self.solver.model()
            raise CheckFailed(tag, self.input_values(m))
        self.trace.append(('c', True))

    def input_values(self, m):
        out = []
        for tag, v, lo, hi in self.inputs:
            if is_sym(v):
                if m is None:
                    m = self.get_model()
                x = m.eval(v, model_completion=True).as_long()
                if x < lo or x > hi:
                    x = lo
                out.append((tag, x))
            else:
                out.append((tag, int(v)))
        return out

    def any_model_values(self):
        try:
            return self.input_values(self.get_model())
        except PathEnd:
            return None
