"""Path context: decision prefix, solver, inputs, counterexample extraction."""
import time
from fractions import Fraction
from . import sx
from .core import PathEnd, CheckFailed, Unsupported, is_sym


CONCRETIZE_CAP = 300


class Stats:
    def __init__(self):
        self.queries = 0
        self.solver_s = 0.0
        self.max_query_s = 0.0
        self.smt_samples = []


class PathCtx:
    def __init__(self, prefix=(), concrete=None, stats=None, timeout_ms=30000, sample_every=0):
        self.prefix = list(prefix)
        self.pos = 0
        self.trace = []
        self.alts = []
        self.concrete = list(concrete) if concrete is not None else None
        self.cpos = 0
        self.inputs = []      # (tag, var-or-int, lo, hi)
        self.stats = stats or Stats()
        self.zctx = sx.get_ctx(timeout_ms)
        self.model = None
        self.nsym_decisions = 0
        self.checks_reached = []
        self.covers = []
        self.observations = []
        self.sample_every = sample_every
        self.fresh = 0
        self.nondet = []
        self.concretize_cap = CONCRETIZE_CAP
        self.decided = {}
        self.interp = None
        self.keep = []   # keeps decided terms alive so that their ids are not reused
        self.cur = None
        self.fork_sites = {}

    # -------------------------------------------------------------- solver plumbing
    def close(self):
        self.model = None
        self.zctx.close()

    def _check(self, *assumptions):
        t0 = time.time()
        r = sx.check(*assumptions)
        dt = time.time() - t0
        st = self.stats
        st.queries += 1
        st.solver_s += dt
        if dt > st.max_query_s:
            st.max_query_s = dt
        if self.sample_every and st.queries % self.sample_every == 0 and len(st.smt_samples) < 40:
            try:
                st.smt_samples.append((sx.to_smt2([a for a in assumptions if type(a) is sx.E]), r))
            except Exception:
                pass
        if r == 'unknown':
            raise Unsupported('solver returned unknown: %s' % sx.reason_unknown())
        return r == 'sat'

    def add(self, c, keeps_model=False):
        sx.assert_(c)
        if not keeps_model:
            self.model = None

    def get_model(self):
        if self.model is None:
            if not self._check():
                raise PathEnd('infeasible')
            self.model = sx.Model()
        return self.model

    def in_replay(self):
        return self.pos < len(self.prefix)

    def _next(self, kind):
        e = self.prefix[self.pos]
        self.pos += 1
        if e[0] != kind and not (kind == 'v' and e[0] == 'ne'):
            raise Unsupported('replay divergence: expected %s got %r at %d' % (kind, e, self.pos - 1))
        return e

    # -------------------------------------------------------------- decisions
    def branch(self, cond):
        if cond is True or cond is False:
            return cond
        if sx.is_true(cond):
            return True
        if sx.is_false(cond):
            return False
        cid = cond.get_id()
        hit = self.decided.get(cid)
        if hit is not None:
            return hit
        val = self._branch(cond)
        # the decision is now part of the path condition: the same term decides the same way from here on
        self.decided[cid] = val
        self.keep.append(cond)
        return val

    def _branch(self, cond):
        if self.pos < len(self.prefix):
            e = self._next('b')
            val = e[1]
            self.add(cond if val else sx.Not(cond))
            self.trace.append(e)
            if len(e) > 2 and e[2]:
                self.nsym_decisions += 1
            return val
        m = self.get_model()
        mv = m.eval(cond)
        other = sx.Not(cond) if mv else cond
        forked = self._check(other)
        if forked:
            self.nsym_decisions += 1
            self.alts.append(self.trace + [('b', not mv, True)])
            self.note_fork()
        sx.assert_(cond if mv else sx.Not(cond))  # current model still satisfies it
        self.trace.append(('b', mv, forked))
        return mv

    def note_fork(self):
        fr = self.cur
        if fr is not None:
            k = '%s bb%d' % (fr.fn['name'], fr.bb)
            self.fork_sites[k] = self.fork_sites.get(k, 0) + 1

    def implied(self, cond):
        """is cond a consequence of the path condition?"""
        if cond is True or cond is False:
            return cond
        if self.pos < len(self.prefix):
            e = self._next('i')
            self.trace.append(e)
            return e[1]
        m = self.get_model()
        if not m.eval(cond):
            r = False
        else:
            r = not self._check(sx.Not(cond))
        self.trace.append(('i', r))
        return r

    def concretize(self, expr, lo=None, hi=None):
        if not is_sym(expr):
            return expr
        n = 0
        while True:
            if self.pos < len(self.prefix):
                e = self._next('v')
                self.trace.append(e)
                if e[0] == 'v':
                    self.add(expr == e[1])
                    return e[1]
                self.add(expr != e[1])
                n += 1
                continue
            m = self.get_model()
            val = m.eval(expr)
            if self._check(expr != val):
                n += 1
                if n > self.concretize_cap:
                    raise Unsupported('concretisation of a value with more than %d feasible values' % self.concretize_cap)
                self.nsym_decisions += 1
                self.alts.append(self.trace + [('ne', val)])
                self.note_fork()
            sx.assert_(expr == val)
            self.trace.append(('v', val))
            return val

    def nondet_choice(self, tag, n):
        """an environment choice in range(n) that is not a harness input (hash order, sort ties, schedule).
        It is unconstrained by the path condition, so every value is feasible: enumerated, no solver call."""
        if n <= 1:
            return 0
        if self.concrete is not None:
            c = 0
        elif self.pos < len(self.prefix):
            e = self._next('n')
            c = e[1]
            self.trace.append(e)
            self.nsym_decisions += 1
        else:
            for alt in range(n - 1, 0, -1):
                self.alts.append(self.trace + [('n', alt)])
            c = 0
            self.trace.append(('n', 0))
            self.nsym_decisions += 1
            self.note_fork()
        self.nondet.append((tag, c, n))
        return c

    def concretize_real(self, expr):
        """like concretize, for a Real-sorted term; returns a Fraction"""
        n = 0
        while True:
            if self.pos < len(self.prefix):
                e = self._next('v')
                self.trace.append(e)
                q = Fraction(e[1][0], e[1][1])
                c = sx.RealVal(q)
                if e[0] == 'v':
                    self.add(expr == c)
                    return q
                self.add(expr != c)
                n += 1
                continue
            m = self.get_model()
            q = Fraction(m.eval(expr))
            c = sx.RealVal(q)
            if self._check(expr != c):
                n += 1
                if n > self.concretize_cap:
                    raise Unsupported('concretisation of a real with more than %d feasible values' % self.concretize_cap)
                self.alts.append(self.trace + [('ne', (q.numerator, q.denominator))])
                self.nsym_decisions += 1
            sx.assert_(expr == c)
            self.trace.append(('v', (q.numerator, q.denominator)))
            return q

    # -------------------------------------------------------------- harness runtime
    def fresh_input(self, tag, lo, hi):
        if self.concrete is not None:
            if self.cpos >= len(self.concrete):
                raise PathEnd('concrete inputs exhausted')
            v = self.concrete[self.cpos]
            self.cpos += 1
            if v < lo or v > hi:
                raise PathEnd('concrete input out of range')
            self.inputs.append((tag, v, lo, hi))
            return v
        if lo == hi:
            self.inputs.append((tag, lo, lo, hi))
            return lo
        v = sx.Int('%s!%d' % (tag, len(self.inputs)))
        self.inputs.append((tag, v, lo, hi))
        self.add(sx.And(v >= lo, v <= hi))
        return v

    def assume(self, c):
        if c is True:
            return
        if c is False:
            raise PathEnd('assume(false)')
        if self.pos < len(self.prefix):
            self.add(c)
            return
        m = self.model
        if m is not None and m.eval(c):
            sx.assert_(c)
        else:
            self.add(c)
            self.get_model()  # raises PathEnd when infeasible

    def check_prop(self, c, tag):
        self.checks_reached.append(tag)
        if c is True:
            return
        if c is False:
            raise CheckFailed(tag, self.input_values(None))
        if sx.is_true(c):
            return
        if sx.is_false(c):
            raise CheckFailed(tag, self.input_values(None))
        if self.pos < len(self.prefix):
            e = self._next('c')
            self.trace.append(e)
            return
        if self._check(sx.Not(c)):
            m = sx.Model()
            raise CheckFailed(tag, self.input_values(m))
        self.trace.append(('c', True))

    def input_values(self, m):
        out = []
        for tag, v, lo, hi in self.inputs:
            if is_sym(v):
                if m is None:
                    m = self.get_model()
                x = m.eval(v)
                if x < lo or x > hi:
                    x = lo
                out.append((tag, x))
            else:
                out.append((tag, int(v)))
        return out

    def any_model_values(self):
        try:
            return self.input_values(self.get_model())
        except PathEnd:
            return None
