"""API-level models of the external (non-descended) functions.

Every model is part of the trusted base of the encoding; each is exercised by the
differential self-test (concrete runs compared against the native binary).
"""
import math
import re
import struct
from . import sx
from .core import (CLOSURE_PTR, RUST_CALL, Agg, Enum, Cell, Ptr, Dyn, FnItem, FnPtr, StrRef, NullPtr, UNINIT, Unsupported, RustPanic,
                   PathEnd, is_sym, copy_val, f32_round)


# ----------------------------------------------------------------------------- heap objects
class VecObj:
    __slots__ = ('f', 'et')

    def __init__(self, et, items=None):
        self.f = items if items is not None else []
        self.et = et

    def __repr__(self):
        return 'Vec%r' % (self.f,)


class _OpaqueStr(str):
    """text produced by formatting, which the encoding does not model: any comparison is refused"""
    __slots__ = ()

    def _refuse(self, *a):
        raise Unsupported('the content of a formatted string is compared/hashed (formatting is not modelled)')

    __eq__ = _refuse
    __ne__ = _refuse
    __hash__ = None

    def strip(self, *a):
        return self

    def encode(self, *a):
        self._refuse()


class StringObj:
    __slots__ = ('s',)

    def __init__(self, s):
        self.s = s

    def __repr__(self):
        return 'String(%r)' % self.s


class ArcInner:
    __slots__ = ('f', 'strong', 'weak', 'ty', 'dropped')

    def __init__(self, v, ty):
        self.f = [v]
        self.strong = 1
        self.weak = 0
        self.ty = ty
        self.dropped = False


class ArcRef:
    __slots__ = ('inner', 'meta')

    def __init__(self, inner, meta=None):
        self.inner = inner
        self.meta = meta

    def ptr_identity(self):
        return self.inner

    def __repr__(self):
        return 'Arc@%x' % (id(self.inner) & 0xffff)


class WeakRef:
    __slots__ = ('inner', 'meta')

    def __init__(self, inner, meta=None):
        self.inner = inner
        self.meta = meta


class LockObj:
    """Mutex / RwLock"""
    __slots__ = ('f', 'writer', 'readers', 'poisoned', 'kind')

    def __init__(self, v, kind):
        self.f = [v]
        self.writer = None
        self.readers = []
        self.poisoned = False
        self.kind = kind


class Guard:
    __slots__ = ('lock', 'mode', 'released', 'panicking_at_lock', 'meta')

    def __init__(self, lock, mode, panicking, meta=None):
        self.lock = lock
        self.mode = mode
        self.released = False
        self.panicking_at_lock = panicking
        self.meta = meta


class AtomicObj:
    __slots__ = ('f',)

    def __init__(self, v):
        self.f = [v]

    def __repr__(self):
        return 'Atomic(%r)' % (self.f[0],)


class IterObj:
    """iterator over a list-like container: yields pointers (by_ref) or values"""
    __slots__ = ('c', 'pos', 'end', 'mode', 'extra')

    def __init__(self, c, pos, end, mode, extra=None):
        self.c = c
        self.pos = pos
        self.end = end
        self.mode = mode
        self.extra = extra


class OnceObj:
    __slots__ = ('done',)

    def __init__(self):
        self.done = False


class ErrObj:
    """anyhow::Error (opaque)"""
    __slots__ = ('msg',)

    def __init__(self, msg):
        self.msg = msg

    def __repr__(self):
        return 'Error(%r)' % (self.msg,)


def some(v):
    return Enum(1, [v])


NONE = lambda: Enum(0, [])


def ok(v):
    return Enum(0, [v])


def err(v):
    return Enum(1, [v])


UNIT = lambda: Agg([])


class Models:
    def __init__(self, prog):
        self.p = prog
        self.exact = {}
        self.regex = []
        self.decoders = {}
        self.unsizers = {}
        self.drops = {}
        self.missing = {}
        register_all(self)

    def reg(self, *names):
        def deco(f):
            for n in names:
                self.exact[norm(n)] = f
            return f
        return deco

    def reg_re(self, pat):
        def deco(f):
            self.regex.append((re.compile(pat), f))
            return f
        return deco

    def find(self, ext):
        dn = norm(ext['dname'])
        f = self.exact.get(dn)
        if f is None:
            for pat, g in self.regex:
                if pat.search(dn):
                    f = g
                    break
        return f

    def call(self, I, ext, args):
        f = ext.get('_model')
        if f is None:
            f = self.find(ext)
            if f is None:
                if ext.get('intrinsic'):
                    f = self.exact.get('intrinsic:' + ext['intrinsic'])
                if f is None and ext.get('reason') == 'nobody':
                    f = self.ctor_model(ext)
                if f is None:
                    self.missing[ext['dname']] = ext['name']
                    raise Unsupported('no model for external %s  [%s]' % (ext['name'], ext['dname']))
            ext['_model'] = f
        return f(I, ext, args)

    def thread_local_ref(self, I, item):
        raise Unsupported('ThreadLocalRef')

    def ctor_model(self, ext):
        """a tuple-variant / tuple-struct constructor used as a function (`.map(Some)`, `ControlFlow::Break`)"""
        dn = norm(ext['dname'])
        if '::' not in dn:
            return None
        parent, last = dn.rsplit('::', 1)
        want = [a['ty'] for a in ext['args'] if 'ty' in a]
        for t in self.p.tys.values():
            if t.get('kind') != 'adt' or t.get('targs') != want:
                continue
            if t.get('name') == parent and t['adt'] == 'enum':
                for vi, v in enumerate(t['variants']):
                    if v['name'] == last:
                        return lambda I, ext, a, vi=vi: Enum(vi, list(a))
            if t.get('name') == dn and t['adt'] == 'struct':
                return lambda I, ext, a: Agg(list(a))
        return None


_NORM = re.compile(r'(?<![A-Za-z0-9_:])(core|alloc)::')


def norm(n):
    """std re-exports: core::x / alloc::x and std::x name the same item"""
    return _NORM.sub('std::', n)


def targ(ext, i=0):
    return [a['ty'] for a in ext['args'] if 'ty' in a][i]


def fn_ret_ty(I, ext):
    """return type id of the external's signature, through its FnDef type string is not available: use fty"""
    return None


def deref_to_value(v):
    """pointer -> pointee value"""
    return v.c.f[v.i]


def as_int(I, v):
    return v


def register_all(M):
    reg = M.reg
    reg_re = M.reg_re
    P = M.p

    # ------------------------------------------------------------------ harness runtime
    @reg('harness::vrt::any_u64', 'harness::vrt::any_u32', 'harness::vrt::any_i64', 'harness::vrt::any_usize')
    def any_int(I, ext, a):
        return I.ctx.fresh_input(a[0].s, a[1], a[2])

    @reg('harness::vrt::any_bool')
    def any_bool(I, ext, a):
        v = I.ctx.fresh_input(a[0].s, 0, 1)
        return (v != 0) if is_sym(v) else bool(v)

    @reg('harness::vrt::ite_u64', 'harness::vrt::ite_i64')
    def vrt_ite(I, ext, a):
        c = a[0]
        if is_sym(c):
            return sx.If(c, a[1], a[2])
        return a[1] if c else a[2]

    @reg('harness::vrt::ite_f64')
    def vrt_ite_f64(I, ext, a):
        from .core import SymF, symf_of_const
        from fractions import Fraction
        c = a[0]
        if not is_sym(c):
            return a[1] if c else a[2]
        parts = []
        for v in (a[1], a[2]):
            if type(v) is SymF:
                parts.append((v.r, v.mag, v.frac))
            else:
                k = symf_of_const(v)
                if k is None:
                    if v != v or v in (math.inf, -math.inf):
                        raise Unsupported('ite_f64 over non-finite constant')
                    k = (sx.RealVal(Fraction(v)), 99, 99)   # usable in comparisons only
                parts.append(k)
        (ra, ma, fa), (rb, mb, fb) = parts
        return SymF(sx.If(c, ra, rb), max(ma, mb), max(fa, fb))

    @reg('harness::vrt::threads')
    def vrt_threads(I, ext, a):
        from .sched import Scheduler
        if I.ctx.concrete is None or True:
            Scheduler(I, int(a[0]))
        return UNIT()

    @reg('harness::vrt::sync_point')
    def vrt_sync_point(I, ext, a):
        I.sched_point(('sync', a[0] if a else 0))
        return UNIT()

    @reg('harness::vrt::unordered')
    def vrt_unordered(I, ext, a):
        I.model_state['unordered'] = bool(a[0])
        return UNIT()

    @reg('harness::vrt::start_line')
    def vrt_start_line(I, ext, a):
        return UNIT()

    @reg('harness::vrt::order_deviations')
    def vrt_order_deviations(I, ext, a):
        I.model_state['order_budget'] = int(a[0])
        return UNIT()

    @reg('harness::vrt::assume')
    def assume(I, ext, a):
        I.ctx.assume(a[0])
        return UNIT()

    @reg('harness::vrt::check')
    def check(I, ext, a):
        I.ctx.check_prop(a[0], a[1].s)
        return UNIT()

    @reg('harness::vrt::cover')
    def cover(I, ext, a):
        if a[0].s not in I.ctx.covers:
            I.ctx.covers.append(a[0].s)
        return UNIT()

    @reg('harness::vrt::observe')
    def observe(I, ext, a):
        I.ctx.observations.append((a[0].s, a[1]))
        return UNIT()

    @reg('harness::vrt::observe_f64')
    def observe_f64(I, ext, a):
        I.ctx.observations.append((a[0].s, struct.unpack('<Q', struct.pack('<d', a[1]))[0]))
        return UNIT()

    # ------------------------------------------------------------------ panics
    @reg('std::result::unwrap_failed')
    def unwrap_failed(I, ext, a):
        raise RustPanic('called `Result::unwrap()` on an `Err` value: %s' % (a[0].s if type(a[0]) is StrRef else ''), 'unwrap')

    @reg('std::option::unwrap_failed')
    def opt_unwrap_failed(I, ext, a):
        raise RustPanic('called `Option::unwrap()` on a `None` value', 'unwrap')

    @reg('std::option::expect_failed', 'core::option::expect_failed')
    def expect_failed(I, ext, a):
        raise RustPanic('expect failed: %s' % (a[0].s if type(a[0]) is StrRef else ''), 'expect')

    @reg_re(r'^(core|std)::panicking::(panic|panic_fmt|panic_explicit|panic_display|panic_str_2015|unreachable_display|panic_nounwind|panic_nounwind_fmt|panic_bounds_check|panic_const::.*|assert_failed.*|panic_cannot_unwind|panic_in_cleanup)$')
    def panic_any(I, ext, a):
        msg = a[0].s if a and type(a[0]) is StrRef else ext['dname']
        raise RustPanic('panic: %s' % msg, 'explicit')

    @reg_re(r'^std::rt::(begin_panic|panic_fmt)')
    def begin_panic(I, ext, a):
        raise RustPanic('panic', 'explicit')

    @reg('std::thread::panicking')
    def thread_panicking(I, ext, a):
        return I.panicking

    # ------------------------------------------------------------------ Arc / Weak
    @reg('std::sync::Arc::<T>::new')
    def arc_new(I, ext, a):
        return ArcRef(ArcInner(a[0], targ(ext)))

    @reg('<std::sync::Arc<T, A> as std::clone::Clone>::clone')
    def arc_clone(I, ext, a):
        r = deref_to_value(a[0])
        r.inner.strong += 1
        return ArcRef(r.inner, r.meta)

    @reg('<std::sync::Arc<T, A> as std::ops::Deref>::deref', '<std::sync::Arc<T, A> as std::convert::AsRef<T>>::as_ref',
         '<std::sync::Arc<T, A> as std::borrow::Borrow<T>>::borrow', 'std::sync::Arc::<T, A>::as_ptr')
    def arc_deref(I, ext, a):
        r = deref_to_value(a[0])
        return Ptr(r.inner, 0, r.meta)

    @reg('<std::sync::Arc<T, A> as std::cmp::PartialEq>::eq')
    def arc_eq(I, ext, a):
        x, y = deref_to_value(a[0]), deref_to_value(a[1])
        return M.val_eq(I, targ(ext), x.inner.f[0], y.inner.f[0])

    @reg('std::sync::Arc::<T, A>::ptr_eq')
    def arc_ptr_eq(I, ext, a):
        return deref_to_value(a[0]).inner is deref_to_value(a[1]).inner

    @reg('std::sync::Arc::<T, A>::strong_count')
    def arc_strong(I, ext, a):
        return deref_to_value(a[0]).inner.strong

    @reg('std::sync::Arc::<T, A>::downgrade')
    def arc_downgrade(I, ext, a):
        r = deref_to_value(a[0])
        r.inner.weak += 1
        return WeakRef(r.inner, r.meta)

    @reg('std::sync::Weak::<T, A>::upgrade')
    def weak_upgrade(I, ext, a):
        w = deref_to_value(a[0])
        if w.inner is None or w.inner.strong == 0:
            return NONE()
        w.inner.strong += 1
        return some(ArcRef(w.inner, w.meta))

    @reg('std::sync::Weak::<T>::new')
    def weak_new(I, ext, a):
        return WeakRef(None)

    def drop_arc(I, ext, a):
        r = deref_to_value(a[0])
        if type(r) is not ArcRef:
            raise Unsupported('drop of Arc holding %r' % (r,))
        inner = r.inner
        inner.strong -= 1
        if inner.strong == 0 and not inner.dropped:
            inner.dropped = True
            I.drop_value_at(inner, 0, inner.ty)
        return UNIT()
    M.drops['std::sync::Arc'] = drop_arc

    def drop_weak(I, ext, a):
        w = deref_to_value(a[0])
        if w.inner is not None:
            w.inner.weak -= 1
        return UNIT()
    M.drops['std::sync::Weak'] = drop_weak

    def unsize_arc(I, v, src, dst):
        st = P.tys[src['targs'][0]]
        dt = P.tys[dst['targs'][0]]
        if dt['kind'] == 'dyn':
            if st['kind'] == 'dyn':
                return v
            return ArcRef(v.inner, Dyn(st['id']))
        m = I.tail_dyn(st, dt)
        return v if m is None else ArcRef(v.inner, m)
    M.unsizers['std::sync::Arc'] = unsize_arc

    # ------------------------------------------------------------------ Box
    def make_box(I, box_tid, ptr):
        """build the nested struct value of Box<T> around ptr"""
        def build(tid, depth=0):
            t = P.tys[tid]
            if t['kind'] in ('ptr', 'ref', 'pat'):
                return ptr
            if t['kind'] == 'adt' and t['adt'] == 'struct':
                fs = t['variants'][0]['fields']
                out = []
                for j, f in enumerate(fs):
                    if j == 0:
                        out.append(build(f['ty'], depth + 1))
                    else:
                        out.append(I.zst(f['ty']) if P.tys[f['ty']]['size'] == 0 else UNINIT)
                return Agg(out)
            raise Unsupported('box layout %s' % t['str'])
        return build(box_tid)
    M.make_box = make_box

    def find_ty(s):
        return P.ty_by_str.get(s)

    def box_ty_of(elem_tid):
        s = 'std::boxed::Box<%s>' % P.tys[elem_tid]['str']
        tid = find_ty(s)
        if tid is None:
            raise Unsupported('no Box type for %s in dump' % P.tys[elem_tid]['str'])
        return tid

    @reg('std::boxed::Box::<T>::new')
    def box_new(I, ext, a):
        et = targ(ext)
        return make_box(I, box_ty_of(et), Ptr(Cell(a[0], 'box'), 0))

    def uninit_of(tid):
        """an uninitialised value of the type with its aggregate structure in place (so that fields can be written)"""
        t = P.tys[tid]
        if t['kind'] == 'adt' and t['adt'] in ('struct', 'union') and t.get('name', '').startswith('std::mem::'):
            return Agg([uninit_of(f['ty']) for f in t['variants'][0]['fields']])
        if t['kind'] == 'tuple':
            return Agg([uninit_of(f) for f in t['fields']])
        return UNINIT
    M.uninit_of = uninit_of

    @reg('std::boxed::Box::<T>::new_uninit')
    def box_new_uninit(I, ext, a):
        et = targ(ext)
        mu = P.ty_by_str.get('std::mem::MaybeUninit<%s>' % P.tys[et]['str'])
        if mu is None:
            raise Unsupported('no MaybeUninit<%s> in dump' % P.tys[et]['str'])
        return make_box(I, box_ty_of(mu), Ptr(Cell(uninit_of(mu), 'box'), 0))

    @reg('std::boxed::box_assume_init_into_vec_unsafe')
    def box_into_vec(I, ext, a):
        p = I.box_ptr(a[0])
        v = p.c.f[p.i]
        et = targs_of(ext)[0]
        n = int(re.search(r', (\d+)>$', ext['name']).group(1))
        tid = P.ty_by_str.get('std::mem::MaybeUninit<[%s; %d]>' % (P.tys[et]['str'], n))
        if tid is None:
            raise Unsupported('no MaybeUninit array type for %s' % ext['name'])
        # MaybeUninit { uninit, value } -> ManuallyDrop -> MaybeDangling -> [T; N]: always the last field
        t = P.tys[tid]
        while t['kind'] == 'adt':
            fs = t['variants'][0]['fields']
            v = v.f[len(fs) - 1]
            t = P.tys[fs[-1]['ty']]
        if t['kind'] != 'array' or type(v) is not Agg:
            raise Unsupported('vec! box content %r' % (v,))
        return VecObj(et, list(v.f))

    def targs_of(ext):
        return [x['ty'] for x in ext['args'] if 'ty' in x]

    @reg('std::boxed::Box::<T>::pin')
    def box_pin(I, ext, a):
        et = targ(ext)
        b = make_box(I, box_ty_of(et), Ptr(Cell(a[0], 'box'), 0))
        return Agg([b])

    @reg('<std::boxed::Box<T, A> as std::ops::Deref>::deref', '<std::boxed::Box<T, A> as std::ops::DerefMut>::deref_mut',
         '<std::boxed::Box<T, A> as std::convert::AsRef<T>>::as_ref', '<std::boxed::Box<T, A> as std::convert::AsMut<T>>::as_mut',
         '<std::boxed::Box<T, A> as std::borrow::Borrow<T>>::borrow')
    def box_deref(I, ext, a):
        b = deref_to_value(a[0])
        return I.box_ptr(b)

    @reg('std::boxed::Box::<T, A>::into_pin', '<std::pin::Pin<std::boxed::Box<T, A>> as std::convert::From<std::boxed::Box<T, A>>>::from')
    def box_into_pin(I, ext, a):
        return Agg([a[0]])

    @reg_re(r"^std::boxed::convert::<impl std::convert::From<.*> for std::boxed::Box<\(?dyn std::error::Error|^anyhow::error::<impl std::convert::From<anyhow::Error> for std::boxed::Box<\(?dyn std::error::Error")
    def box_dyn_error_from(I, ext, a):
        # Box<dyn Error>: an opaque boxed payload (nothing but its destructor is ever used)
        sty = P.ty_by_str.get('std::string::String')
        payload = a[0] if type(a[0]) is StringObj else StringObj('<error>')
        ret = None
        for k, t in P.tys.items():
            if t['kind'] == 'adt' and t.get('is_box') and t['str'].startswith('std::boxed::Box<dyn std::error::Error'):
                ret = k
                break
        if ret is None:
            raise Unsupported('no Box<dyn Error> type in dump')
        return make_box(I, ret, Ptr(Cell(payload, 'box'), 0, Dyn(sty)))

    def drop_box(I, ext, a):
        b = deref_to_value(a[0])
        p = I.box_ptr(b)
        bt = P.tys[targ(ext)]
        et = bt['targs'][0]
        if type(p) is Ptr:
            I.drop_value_at(p.c, p.i, et, p.meta)
        return UNIT()
    M.drops['std::boxed::Box'] = drop_box

    # ------------------------------------------------------------------ Vec
    @reg('std::vec::Vec::<T>::new', 'std::vec::Vec::<T>::with_capacity', '<std::vec::Vec<T> as std::default::Default>::default')
    def vec_new(I, ext, a):
        return VecObj(targ(ext))

    @reg('std::vec::Vec::<T, A>::push')
    def vec_push(I, ext, a):
        deref_to_value(a[0]).f.append(a[1])
        return UNIT()

    @reg('std::vec::Vec::<T, A>::pop')
    def vec_pop(I, ext, a):
        v = deref_to_value(a[0])
        return some(v.f.pop()) if v.f else NONE()

    @reg('std::vec::Vec::<T, A>::len')
    def vec_len(I, ext, a):
        return len(deref_to_value(a[0]).f)

    @reg('std::vec::Vec::<T, A>::is_empty')
    def vec_is_empty(I, ext, a):
        return len(deref_to_value(a[0]).f) == 0

    @reg('std::vec::Vec::<T, A>::clear')
    def vec_clear(I, ext, a):
        v = deref_to_value(a[0])
        drop_items(I, v)
        return UNIT()

    def drop_items(I, v):
        if P.tys[v.et].get('drop'):
            items = v.f
            for j in range(len(items)):
                I.drop_value_at(v, j, v.et)
        v.f = []

    @reg('std::vec::Vec::<T, A>::remove')
    def vec_remove(I, ext, a):
        v = deref_to_value(a[0])
        idx = I.ctx.concretize(a[1])
        if idx >= len(v.f):
            raise RustPanic('removal index (is %d) should be < len (is %d)' % (idx, len(v.f)))
        return v.f.pop(idx)

    @reg('std::vec::Vec::<T, A>::insert')
    def vec_insert(I, ext, a):
        v = deref_to_value(a[0])
        idx = I.ctx.concretize(a[1])
        if idx > len(v.f):
            raise RustPanic('insertion index (is %d) should be <= len (is %d)' % (idx, len(v.f)))
        v.f.insert(idx, a[2])
        return UNIT()

    @reg('std::vec::Vec::<T, A>::append')
    def vec_append(I, ext, a):
        v = deref_to_value(a[0])
        o = deref_to_value(a[1])
        v.f.extend(o.f)
        o.f = []
        return UNIT()

    @reg('std::vec::Vec::<T, A>::truncate')
    def vec_truncate(I, ext, a):
        v = deref_to_value(a[0])
        n = I.ctx.concretize(a[1])
        while len(v.f) > n:
            j = len(v.f) - 1
            I.drop_value_at(v, j, v.et)
            v.f.pop()
        return UNIT()

    @reg('std::vec::Vec::<T, A>::reserve', 'std::vec::Vec::<T, A>::shrink_to_fit')
    def vec_reserve(I, ext, a):
        return UNIT()

    @reg('std::vec::Vec::<T, A>::capacity')
    def vec_capacity(I, ext, a):
        return len(deref_to_value(a[0]).f)

    @reg('<std::vec::Vec<T, A> as std::ops::Index<I>>::index', '<std::vec::Vec<T, A> as std::ops::IndexMut<I>>::index_mut')
    def vec_index(I, ext, a):
        v = deref_to_value(a[0])
        idx = a[1]
        if type(idx) is Agg or type(idx) is Enum:
            return slice_range(I, Ptr(v, 0, len(v.f)), idx, ext)
        n = len(v.f)
        if is_sym(idx):
            idx = I.ctx.concretize(idx)
        if idx < 0 or idx >= n:
            raise RustPanic('index out of bounds: the len is %d but the index is %d' % (n, idx), 'bounds')
        return Ptr(v, idx)

    def slice_range(I, sl, rng, ext):
        # Range / RangeFrom / RangeTo / RangeFull over a slice pointer
        cands = [P.tys[x['ty']] for x in ext['args'] if 'ty' in x]
        rt = next((t for t in cands if 'Range' in t.get('name', '')), cands[-1])
        n = sl.meta
        name = rt.get('name', '')
        f = rng.f
        if name.endswith('ops::Range'):
            lo, hi = f[0], f[1]
        elif name.endswith('RangeFrom'):
            lo, hi = f[0], n
        elif name.endswith('RangeTo'):
            lo, hi = 0, f[0]
        elif name.endswith('RangeFull'):
            lo, hi = 0, n
        elif name.endswith('RangeToInclusive'):
            lo, hi = 0, f[0] + 1
        elif name.endswith('RangeInclusive'):
            lo, hi = f[0], f[1] + 1
        else:
            raise Unsupported('slice index by %s' % rt['str'])
        lo = I.ctx.concretize(lo)
        hi = I.ctx.concretize(hi)
        if lo > hi or hi > n:
            raise RustPanic('slice index out of range', 'bounds')
        return Ptr(sl.c, sl.i + lo, hi - lo)

    @reg('<std::vec::Vec<T, A> as std::ops::Deref>::deref', '<std::vec::Vec<T, A> as std::ops::DerefMut>::deref_mut',
         'std::vec::Vec::<T, A>::as_slice', 'std::vec::Vec::<T, A>::as_mut_slice',
         '<std::vec::Vec<T, A> as std::convert::AsRef<[T]>>::as_ref', '<std::vec::Vec<T, A> as std::borrow::Borrow<[T]>>::borrow')
    def vec_deref(I, ext, a):
        v = deref_to_value(a[0])
        return Ptr(v, 0, len(v.f))

    @reg('<std::vec::Vec<T, A> as std::iter::IntoIterator>::into_iter')
    def vec_into_iter(I, ext, a):
        v = a[0]
        return IterObj(v, 0, None, 'val', v.et)

    @reg('<std::vec::IntoIter<T, A> as std::iter::Iterator>::next')
    def vec_intoiter_next(I, ext, a):
        it = deref_to_value(a[0])
        if it.pos >= len(it.c.f):
            return NONE()
        v = it.c.f[it.pos]
        it.c.f[it.pos] = UNINIT
        it.pos += 1
        return some(v)

    def drop_vec_intoiter(I, ext, a):
        it = deref_to_value(a[0])
        for j in range(it.pos, len(it.c.f)):
            I.drop_value_at(it.c, j, it.c.et)
        it.c.f = []
        it.pos = 0
        return UNIT()
    M.drops['std::vec::IntoIter'] = drop_vec_intoiter

    @reg("<&'a std::vec::Vec<T, A> as std::iter::IntoIterator>::into_iter", "<&'a mut std::vec::Vec<T, A> as std::iter::IntoIterator>::into_iter")
    def vec_ref_into_iter(I, ext, a):
        v = deref_to_value(a[0])
        return IterObj(v, 0, len(v.f), 'ref')

    @reg('std::slice::<impl [T]>::iter', 'std::slice::<impl [T]>::iter_mut', "<&'a [T] as std::iter::IntoIterator>::into_iter",
         "<&'a mut [T] as std::iter::IntoIterator>::into_iter", "std::slice::iter::<impl std::iter::IntoIterator for &'a [T]>::into_iter",
         "std::slice::iter::<impl std::iter::IntoIterator for &'a mut [T]>::into_iter")
    def slice_iter(I, ext, a):
        s = a[0]
        return IterObj(s.c, s.i, s.i + s.meta, 'ref')

    @reg("<std::slice::Iter<'a, T> as std::iter::Iterator>::next", "<std::slice::IterMut<'a, T> as std::iter::Iterator>::next")
    def slice_iter_next(I, ext, a):
        it = deref_to_value(a[0])
        if it.pos >= it.end:
            return NONE()
        p = Ptr(it.c, it.pos)
        it.pos += 1
        return some(p)

    @reg('std::slice::<impl [T]>::len')
    def slice_len(I, ext, a):
        return a[0].meta

    @reg('std::slice::<impl [T]>::is_empty')
    def slice_is_empty(I, ext, a):
        return a[0].meta == 0

    @reg('std::slice::<impl [T]>::to_vec', 'std::slice::<impl [T]>::to_vec_in')
    def slice_to_vec(I, ext, a):
        s = a[0]
        et = targ(ext)
        items = []
        clone = clone_fn(I, et)
        for j in range(s.meta):
            items.append(clone(Ptr(s.c, s.i + j)))
        return VecObj(et, items)

    def clone_fn(I, tid):
        """-> python callable (ptr) -> cloned value, using the real Clone impl when the dump has it"""
        t = P.tys[tid]
        k = t['kind']
        if k in ('int', 'bool', 'char', 'float', 'ref', 'ptr', 'fnptr'):
            return lambda p: p.c.f[p.i]
        name = t.get('name', '')
        if name == 'std::sync::Arc':
            def f(p):
                r = p.c.f[p.i]
                r.inner.strong += 1
                return ArcRef(r.inner, r.meta)
            return f
        if name == 'std::string::String':
            return lambda p: StringObj(p.c.f[p.i].s)
        # look for <T as Clone>::clone instance in the dump
        want = '<%s as std::clone::Clone>::clone' % t['str']
        for iid, fn in list(P.fns.items()) + list(P.exts.items()):
            if fn['name'] == want:
                return lambda p, iid=iid: I.call_fn(iid, [p])
        raise Unsupported('no Clone instance for %s' % t['str'])
    M.clone_fn = clone_fn

    @reg('<std::vec::Vec<T, A> as std::clone::Clone>::clone')
    def vec_clone(I, ext, a):
        v = deref_to_value(a[0])
        clone = clone_fn(I, v.et)
        return VecObj(v.et, [clone(Ptr(v, j)) for j in range(len(v.f))])

    @reg_re(r'^std::vec::partial_eq::<impl std::cmp::PartialEq<std::vec::Vec<U, A2>> for std::vec::Vec<T, A1>>::eq$')
    def vec_eq(I, ext, a):
        x, y = deref_to_value(a[0]), deref_to_value(a[1])
        if len(x.f) != len(y.f):
            return False
        for p, q in zip(x.f, y.f):
            if not M.val_eq(I, x.et, p, q):
                return False
        return True

    def drop_vec(I, ext, a):
        v = deref_to_value(a[0])
        if type(v) is not VecObj:
            raise Unsupported('drop of Vec holding %r' % (v,))
        drop_items(I, v)
        return UNIT()
    M.drops['std::vec::Vec'] = drop_vec

    @reg('<std::vec::Vec<T> as std::iter::FromIterator<T>>::from_iter')
    def vec_from_iter(I, ext, a):
        ts = [x['ty'] for x in ext['args'] if 'ty' in x]
        et, it_ty = ts[0], ts[1]
        it = a[0]
        out = VecObj(et)
        if type(it) is IterObj and it.mode == 'val':
            out.f = [x for x in it.c.f[it.pos:]]
            it.c.f = []
            return out
        # generic: drive Iterator::next of the iterator type from its real MIR
        nxt = find_method(I, it_ty, 'std::iter::Iterator>::next')
        cell = Cell(it)
        while True:
            r = I.call_fn(nxt, [Ptr(cell, 0)])
            if r.v == 0:
                break
            out.f.append(r.f[0])
        I.drop_value_at(cell, 0, it_ty)
        return out

    def find_method(I, self_tid, suffix):
        s = P.tys[self_tid]['str']
        want = '<%s as %s' % (s, suffix)
        for iid, fn in list(P.fns.items()) + list(P.exts.items()):
            if fn['name'] == want:
                return iid
        raise Unsupported('no instance %s in dump' % want)
    M.find_method = find_method

    # ------------------------------------------------------------------ atomics
    @reg_re(r'^std::sync::atomic::Atomic(::)?<.*>::new$')
    def atomic_new(I, ext, a):
        return AtomicObj(a[0])

    @reg_re(r'^<std::sync::atomic::Atomic<.*> as std::default::Default>::default$')
    def atomic_default(I, ext, a):
        t = P.tys[targ(ext)] if ext['args'] else None
        if 'bool' in ext['dname']:
            return AtomicObj(False)
        return AtomicObj(0)

    def at(a):
        o = deref_to_value(a[0])
        if type(o) is not AtomicObj:
            raise Unsupported('atomic op on %r' % (o,))
        return o

    @reg_re(r'^std::sync::atomic::Atomic(::)?<.*>::load$')
    def atomic_load(I, ext, a):
        I.sched_point(('atomic',))
        return at(a).f[0]

    @reg_re(r'^std::sync::atomic::Atomic(::)?<.*>::store$')
    def atomic_store(I, ext, a):
        I.sched_point(('atomic',))
        at(a).f[0] = a[1]
        return UNIT()

    def atomic_ty(ext):
        m = re.search(r'Atomic(?:::)?<(\w+)>', ext['dname'])
        name = m.group(1)
        if name == 'bool':
            return None
        bits = {'usize': 64, 'isize': 64}.get(name) or int(name[1:])
        signed = name[0] == 'i'
        lo, hi = (-(1 << (bits - 1)), (1 << (bits - 1)) - 1) if signed else (0, (1 << bits) - 1)
        return {'lo': lo, 'hi': hi, 'bits': bits, 'signed': signed, 'kind': 'int', 'str': name}

    @reg_re(r'^std::sync::atomic::Atomic(::)?<.*>::(fetch_add|fetch_sub|fetch_max|fetch_min|swap|fetch_and|fetch_or)$')
    def atomic_rmw(I, ext, a):
        I.sched_point(('atomic',))
        o = at(a)
        old = o.f[0]
        op = ext['dname'].rsplit('::', 1)[1]
        t = atomic_ty(ext)
        if op == 'fetch_add':
            o.f[0] = I.int_wrap(old + a[1], t)
        elif op == 'fetch_sub':
            o.f[0] = I.int_wrap(old - a[1], t)
        elif op == 'swap':
            o.f[0] = a[1]
        elif op in ('fetch_max', 'fetch_min'):
            if is_sym(old) or is_sym(a[1]):
                gt = I.ctx.branch(old >= a[1])
            else:
                gt = old >= a[1]
            if op == 'fetch_max':
                o.f[0] = old if gt else a[1]
            else:
                o.f[0] = a[1] if gt else old
        elif op == 'fetch_and':
            o.f[0] = (old and a[1]) if t is None else (old & a[1])
        elif op == 'fetch_or':
            o.f[0] = (old or a[1]) if t is None else (old | a[1])
        return old

    @reg_re(r'^std::sync::atomic::Atomic(::)?<.*>::(compare_exchange|compare_exchange_weak|compare_and_swap)$')
    def atomic_cas(I, ext, a):
        I.sched_point(('atomic',))
        o = at(a)
        old = o.f[0]
        exp, new = a[1], a[2]
        if is_sym(old) or is_sym(exp):
            c = old == exp
            same = I.ctx.branch(c)
        else:
            same = old == exp
        if same:
            o.f[0] = new
            return ok(old)
        return err(old)

    def dec_atomic(I, t, alloc, off):
        inner = t['targs'][0] if t['targs'] else None
        if inner is None:
            raise Unsupported('atomic decode')
        return AtomicObj(I.decode(inner, alloc, off))
    M.decoders['std::sync::atomic::Atomic'] = dec_atomic

    # ------------------------------------------------------------------ Mutex / RwLock
    @reg('std::sync::Mutex::<T>::new')
    def mutex_new(I, ext, a):
        return LockObj(a[0], 'mutex')

    @reg('std::sync::RwLock::<T>::new')
    def rwlock_new(I, ext, a):
        return LockObj(a[0], 'rwlock')

    def lock_result(I, lk, g):
        if lk.poisoned:
            return err(Agg([g]))
        return ok(g)

    def acquire(I, lkp, mode, blocking):
        lk = lkp.c.f[lkp.i]
        if type(lk) is not LockObj:
            raise Unsupported('lock operation on %r' % (lk,))
        me = I.thread_id
        I.sched_point(('lock', lk, mode))
        while True:
            if mode == 'read':
                free = lk.writer is None
            else:
                free = lk.writer is None and not lk.readers
            if free:
                break
            if not blocking:
                return None
            if lk.writer == me or me in lk.readers:
                I.deadlock('thread %d re-acquires a %s it already holds' % (me, lk.kind))
            I.block_on(lk, mode)
        if mode == 'read':
            lk.readers.append(me)
        else:
            lk.writer = me
        return Guard(lk, mode, I.panicking, lkp.meta)

    @reg('std::sync::Mutex::<T>::lock')
    def mutex_lock(I, ext, a):
        lk = deref_to_value(a[0])
        g = acquire(I, a[0], 'write', True)
        return lock_result(I, lk, g)

    @reg('std::sync::Mutex::<T>::try_lock')
    def mutex_try_lock(I, ext, a):
        lk = deref_to_value(a[0])
        g = acquire(I, a[0], 'write', False)
        if g is None:
            return err(Enum(1, []))  # TryLockError::WouldBlock
        if lk.poisoned:
            return err(Enum(0, [Agg([g])]))
        return ok(g)

    @reg('std::sync::RwLock::<T>::read')
    def rw_read(I, ext, a):
        lk = deref_to_value(a[0])
        return lock_result(I, lk, acquire(I, a[0], 'read', True))

    @reg('std::sync::RwLock::<T>::write')
    def rw_write(I, ext, a):
        lk = deref_to_value(a[0])
        return lock_result(I, lk, acquire(I, a[0], 'write', True))

    @reg_re(r"^<std::sync::(MutexGuard|RwLockReadGuard|RwLockWriteGuard)<'.*, T> as std::ops::Deref(Mut)?>::deref(_mut)?$")
    def guard_deref(I, ext, a):
        g = deref_to_value(a[0])
        return Ptr(g.lock, 0, g.meta)

    def drop_guard(I, ext, a):
        g = deref_to_value(a[0])
        if type(g) is not Guard:
            raise Unsupported('drop of guard holding %r' % (g,))
        if g.released:
            return UNIT()
        g.released = True
        lk = g.lock
        if g.mode == 'read':
            lk.readers.remove(I.thread_id)
        else:
            lk.writer = None
            if I.panicking and not g.panicking_at_lock:
                lk.poisoned = True
        I.sched_point(('unlock', lk, g.mode))
        return UNIT()
    M.drops['std::sync::MutexGuard'] = drop_guard
    M.drops['std::sync::RwLockReadGuard'] = drop_guard
    M.drops['std::sync::RwLockWriteGuard'] = drop_guard

    def drop_lock(I, ext, a):
        lk = deref_to_value(a[0])
        t = P.tys[targ(ext)]
        I.drop_value_at(lk, 0, t['targs'][0])
        return UNIT()
    M.drops['std::sync::Mutex'] = drop_lock
    M.drops['std::sync::RwLock'] = drop_lock

    def drop_poison_error(I, ext, a):
        v = deref_to_value(a[0])
        t = P.tys[targ(ext)]
        I.drop_value_at(v, 0, t['targs'][0])
        return UNIT()
    M.drops['std::sync::PoisonError'] = drop_poison_error

    def drop_try_lock_error(I, ext, a):
        v = deref_to_value(a[0])
        if v.v == 0:
            t = P.tys[targ(ext)]
            I.drop_value_at(v.f[0], 0, t['targs'][0])
        return UNIT()
    M.drops['std::sync::TryLockError'] = drop_try_lock_error

    @reg('std::sync::PoisonError::<T>::into_inner')
    def poison_into_inner(I, ext, a):
        return a[0].f[0]

    # ------------------------------------------------------------------ enum_map
    @reg('enum_map::enum_map_impls::<impl std::default::Default for enum_map::EnumMap<K, V>>::default')
    def enummap_default(I, ext, a):
        ts = [x['ty'] for x in ext['args'] if 'ty' in x]
        kt, vt = P.tys[ts[0]], ts[1]
        n = len(kt['variants'])
        dflt = default_fn(I, vt)
        return Agg([Agg([dflt() for _ in range(n)])])

    def default_fn(I, tid):
        t = P.tys[tid]
        k = t['kind']
        if k == 'int':
            return lambda: 0
        if k == 'bool':
            return lambda: False
        if k == 'float':
            return lambda: 0.0
        if t.get('name') == 'std::sync::atomic::Atomic':
            it = P.tys[t['targs'][0]]
            return (lambda: AtomicObj(False)) if it['kind'] == 'bool' else (lambda: AtomicObj(0))
        want = '<%s as std::default::Default>::default' % t['str']
        for iid, fn in list(P.fns.items()) + list(P.exts.items()):
            if fn['name'] == want:
                return lambda iid=iid: I.call_fn(iid, [])
        raise Unsupported('no Default instance for %s' % t['str'])

    @reg('enum_map::enum_map_impls::<impl std::ops::Index<K> for enum_map::EnumMap<K, V>>::index',
         'enum_map::enum_map_impls::<impl std::ops::IndexMut<K> for enum_map::EnumMap<K, V>>::index_mut')
    def enummap_index(I, ext, a):
        m = deref_to_value(a[0])
        return Ptr(m.f[0], a[1].v)

    @reg("enum_map::iter::<impl std::iter::IntoIterator for &'a enum_map::EnumMap<K, V>>::into_iter", 'enum_map::EnumMap::<K, V>::iter', 'enum_map::iter::<impl enum_map::EnumMap<K, V>>::iter')
    def enummap_iter(I, ext, a):
        m = deref_to_value(a[0])
        return IterObj(m.f[0], 0, len(m.f[0].f), 'enum')

    @reg("<enum_map::iter::Iter<'a, K, V> as std::iter::Iterator>::next")
    def enummap_iter_next(I, ext, a):
        it = deref_to_value(a[0])
        if it.pos >= it.end:
            return NONE()
        r = some(Agg([Enum(it.pos, []), Ptr(it.c, it.pos)]))
        it.pos += 1
        return r

    @reg('enum_map::EnumMap::<K, V>::values', 'enum_map::iter::<impl enum_map::EnumMap<K, V>>::values')
    def enummap_values(I, ext, a):
        m = deref_to_value(a[0])
        return IterObj(m.f[0], 0, len(m.f[0].f), 'ref')

    @reg("<enum_map::iter::Values<'a, V> as std::iter::Iterator>::next")
    def enummap_values_next(I, ext, a):
        return slice_iter_next(I, ext, a)

    # ------------------------------------------------------------------ anyhow / errors
    @reg('anyhow::error::<impl anyhow::Error>::msg')
    def anyhow_msg(I, ext, a):
        m = a[0]
        s = m.s if type(m) in (StrRef, StringObj) else '<msg>'
        return ErrObj(s)

    @reg('anyhow::error::<impl anyhow::Error>::new', 'anyhow::error::<impl std::convert::From<E> for anyhow::Error>::from')
    def anyhow_new(I, ext, a):
        return ErrObj(repr(a[0]))

    @reg('anyhow::__private::format_err')
    def anyhow_format_err(I, ext, a):
        return ErrObj('<formatted>')

    def drop_nop(I, ext, a):
        return UNIT()
    M.drops['anyhow::Error'] = drop_nop
    M.drops['std::string::String'] = drop_nop
    M.drops['std::fmt::Arguments'] = drop_nop
    M.drops['std::thread::JoinHandle'] = drop_nop

    # ------------------------------------------------------------------ misc std
    @reg('std::thread::yield_now')
    def yield_now(I, ext, a):
        I.sched_point(('yield',))
        return UNIT()

    @reg('core::str::traits::<impl std::cmp::PartialEq for str>::eq', 'std::str::traits::<impl std::cmp::PartialEq for str>::eq')
    def str_eq(I, ext, a):
        return a[0].s == a[1].s

    @reg('std::ptr::drop_in_place')
    def drop_in_place(I, ext, a):
        tid = targ(ext)
        t = P.tys[tid]
        if t['kind'] == 'dyn':
            p = a[0]
            I.drop_value_at(p.c, p.i, tid, p.meta)
            return UNIT()
        name = t.get('name')
        f = M.drops.get(name)
        if f is None:
            raise Unsupported('no drop model for %s' % t['str'])
        return f(I, ext, a)

    @reg('std::mem::drop')
    def mem_drop(I, ext, a):
        tid = targ(ext)
        c = Cell(a[0])
        I.drop_value_at(c, 0, tid)
        return UNIT()

    @reg('std::mem::forget')
    def mem_forget(I, ext, a):
        return UNIT()

    @reg('std::mem::replace')
    def mem_replace(I, ext, a):
        p = a[0]
        old = p.c.f[p.i]
        p.c.f[p.i] = a[1]
        return old

    @reg('std::mem::swap')
    def mem_swap(I, ext, a):
        p, q = a[0], a[1]
        p.c.f[p.i], q.c.f[q.i] = q.c.f[q.i], p.c.f[p.i]
        return UNIT()

    @reg('std::mem::take')
    def mem_take(I, ext, a):
        p = a[0]
        old = p.c.f[p.i]
        p.c.f[p.i] = default_fn(I, targ(ext))()
        return old


# =============================================================================== batch 2
class MapObj:
    """HashMap / HashSet: insertion-ordered parallel lists; iteration order is chosen by the run"""
    __slots__ = ('f', 'kc', 'kt', 'vt', 'is_set')

    def __init__(self, kt, vt, is_set=False):
        self.f = []          # values
        self.kc = Cell(None)
        self.kc.f = []       # keys
        self.kt = kt
        self.vt = vt
        self.is_set = is_set

    def __repr__(self):
        return ('Set%r' % (self.kc.f,)) if self.is_set else ('Map%r' % (list(zip(self.kc.f, self.f)),))


class RefCellObj:
    __slots__ = ('f', 'borrow')

    def __init__(self, v):
        self.f = [v]
        self.borrow = 0


class BorrowRef:
    __slots__ = ('cell', 'mut')

    def __init__(self, cell, mut):
        self.cell = cell
        self.mut = mut


class HasherObj:
    __slots__ = ('acc',)

    def __init__(self):
        self.acc = []


class LruObj:
    """lru::LruCache: list of (key, value) from least to most recently used"""
    __slots__ = ('f', 'kc', 'cap', 'kt', 'vt')

    def __init__(self, cap, kt, vt):
        self.f = []
        self.kc = Cell(None)
        self.kc.f = []
        self.cap = cap
        self.kt = kt
        self.vt = vt


class OpaqueObj:
    __slots__ = ('what', 'data')

    def __init__(self, what, data=None):
        self.what = what
        self.data = data

    def __repr__(self):
        return 'Opaque(%s)' % self.what


def register_batch2(M):
    reg = M.reg
    reg_re = M.reg_re
    P = M.p

    def targs(ext):
        return [a['ty'] for a in ext['args'] if 'ty' in a]

    def name_of(tid):
        return P.tys[tid].get('name', '')

    def find_inst(name):
        c = M.__dict__.setdefault('_inst_cache', {})
        if name in c:
            return c[name]
        r = None
        for iid, fn in P.fns.items():
            if fn['name'] == name:
                r = iid
                break
        if r is None:
            for iid, fn in P.exts.items():
                if fn['name'] == name:
                    r = iid
                    break
        c[name] = r
        return r
    M.find_inst = find_inst

    # ------------------------------------------------------------------ equality / hashing of keys
    def val_eq(I, tid, a, b):
        t = P.tys[tid]
        k = t['kind']
        if k in ('int', 'bool', 'char', 'float'):
            if is_sym(a) or is_sym(b):
                return I.ctx.branch(a == b)
            return a == b
        if k == 'ref':
            pt = P.tys[t['pointee']]
            if pt['kind'] == 'str':
                return a.s == b.s
            return val_eq(I, t['pointee'], a.c.f[a.i], b.c.f[b.i])
        name = t.get('name', '')
        if name == 'std::string::String':
            return a.s == b.s
        if name == 'std::sync::Arc':
            it = t['targs'][0]
            if P.tys[it]['kind'] == 'dyn':
                raise Unsupported('eq on Arc<dyn>')
            return val_eq(I, it, a.inner.f[0], b.inner.f[0])
        if type(a) is VecObj and type(b) is VecObj:
            if len(a.f) != len(b.f):
                return False
            for x, y in zip(a.f, b.f):
                if not val_eq(I, a.et, x, y):
                    return False
            return True
        if k == 'array' or k == 'slice':
            if len(a.f) != len(b.f):
                return False
            return all(val_eq(I, t['elem'], x, y) for x, y in zip(a.f, b.f))
        if k == 'adt' or k == 'tuple':
            iid = find_inst('<%s as std::cmp::PartialEq>::eq' % t['str'])
            if iid is not None:
                r = I.call_fn(iid, [Ptr(Cell(a), 0), Ptr(Cell(b), 0)])
                return I.ctx.branch(r) if is_sym(r) else r
            return struct_eq(I, t, a, b)
        raise Unsupported('key equality on %s' % t['str'])
    M.val_eq = val_eq

    def struct_eq(I, t, a, b):
        if type(a) is Enum:
            if a.v != b.v:
                return False
            fts = [f['ty'] for f in t['variants'][a.v]['fields']]
        elif t['kind'] == 'tuple':
            fts = t['fields']
        else:
            fts = [f['ty'] for f in t['variants'][0]['fields']]
        for ft, x, y in zip(fts, a.f, b.f):
            if not val_eq(I, ft, x, y):
                return False
        return True

    def hash_key(I, tid, v):
        """a python value standing for the hash of v (None = assume consistent with eq)"""
        t = P.tys[tid]
        name = t.get('name', '')
        if name == 'std::sync::Arc':
            return hash_key(I, t['targs'][0], v.inner.f[0])
        if t['kind'] == 'adt' and t['krate'] in ('sentinel_core',):
            iid = find_inst('<%s as std::hash::Hash>::hash::<std::hash::DefaultHasher>' % t['str'])
            if iid is None:
                iid = find_inst('<%s as std::hash::Hash>::hash::<std::collections::hash_map::DefaultHasher>' % t['str'])
            if iid is not None:
                h = HasherObj()
                I.call_fn(iid, [Ptr(Cell(v), 0), Ptr(Cell(h), 0)])
                return tuple(h.acc)
        return None

    def map_find(I, m, key, kt=None):
        kt = kt if kt is not None else m.kt
        hk = None
        for j, k in enumerate(m.kc.f):
            if val_eq(I, kt, k, key):
                if hk is None:
                    hk = (hash_key(I, kt, key),)
                if hk[0] is not None and hash_key(I, kt, k) != hk[0]:
                    # equal under Eq but hashed differently (Hash/Eq inconsistent): the real table
                    # finds it only on a tag collision; modelled as "not found" (stated assumption)
                    continue
                return j
        return -1
    M.map_find = map_find

    # ------------------------------------------------------------------ hasher
    @reg('std::hash::DefaultHasher::new', 'std::collections::hash_map::DefaultHasher::new', '<std::hash::DefaultHasher as std::default::Default>::default')
    def hasher_new(I, ext, a):
        return HasherObj()

    @reg_re(r'^<(std::string::String|str) as std::hash::Hash>::hash$')
    def hash_string(I, ext, a):
        v = a[0].c.f[a[0].i] if type(a[0]) is Ptr else a[0]
        s = v.s
        a[1].c.f[a[1].i].acc.append(s)
        return UNIT()

    @reg_re(r'^(core|std)::hash::impls::<impl std::hash::Hash for \w+>::hash$')
    def hash_prim(I, ext, a):
        a[1].c.f[a[1].i].acc.append(a[0].c.f[a[0].i])
        return UNIT()

    @reg_re(r'^<std::hash::DefaultHasher as std::hash::Hasher>::write')
    def hasher_write(I, ext, a):
        a[0].c.f[a[0].i].acc.append(a[1] if not isinstance(a[1], Ptr) else 'bytes')
        return UNIT()

    @reg_re(r'^std::hash::Hasher::write_\w+$')
    def hasher_write_x(I, ext, a):
        a[0].c.f[a[0].i].acc.append(a[1])
        return UNIT()

    @reg('std::mem::discriminant')
    def mem_discriminant(I, ext, a):
        v = a[0].c.f[a[0].i]
        return Agg([v.v if type(v) is Enum else 0])

    @reg_re(r'^<std::mem::Discriminant<T> as std::hash::Hash>::hash$')
    def hash_discr(I, ext, a):
        a[1].c.f[a[1].i].acc.append(('d', a[0].c.f[a[0].i].f[0]))
        return UNIT()

    # ------------------------------------------------------------------ HashMap
    @reg('std::collections::HashMap::<K, V>::new', 'std::collections::HashMap::<K, V>::with_capacity',
         '<std::collections::HashMap<K, V, S> as std::default::Default>::default')
    def map_new(I, ext, a):
        ts = targs(ext)
        return MapObj(ts[0], ts[1])

    @reg('std::collections::HashSet::<T>::new', 'std::collections::HashSet::<T>::with_capacity',
         '<std::collections::HashSet<T, S> as std::default::Default>::default')
    def set_new(I, ext, a):
        return MapObj(targs(ext)[0], None, True)

    def lookup_key(I, ext, m, q):
        """q: &Q where K: Borrow<Q>; handles String keys looked up by &str / &String"""
        ts = targs(ext)
        qt = ts[-1] if len(ts) >= 4 or (len(ts) >= 3 and not m.is_set) else None
        # the Q type argument is the last generic; when Q is str the argument is a StrRef
        if type(q) is StrRef:
            for j, k in enumerate(m.kc.f):
                if k.s == q.s:
                    return j
            return -1
        key = q.c.f[q.i]
        return map_find(I, m, key)

    @reg('std::collections::HashMap::<K, V, S, A>::get', 'std::collections::HashMap::<K, V, S, A>::get_mut')
    def map_get(I, ext, a):
        m = deref_to_value(a[0])
        j = lookup_key(I, ext, m, a[1])
        return some(Ptr(m, j)) if j >= 0 else NONE()

    @reg('<std::collections::HashMap<K, V, S, A> as std::ops::Index<&Q>>::index')
    def map_index(I, ext, a):
        m = deref_to_value(a[0])
        j = lookup_key(I, ext, m, a[1])
        if j < 0:
            raise RustPanic('key not found in HashMap index', 'bounds')
        return Ptr(m, j)

    @reg('std::collections::HashMap::<K, V, S, A>::contains_key')
    def map_contains_key(I, ext, a):
        m = deref_to_value(a[0])
        return lookup_key(I, ext, m, a[1]) >= 0

    @reg('std::collections::HashMap::<K, V, S, A>::insert')
    def map_insert(I, ext, a):
        m = deref_to_value(a[0])
        j = map_find(I, m, a[1])
        if j >= 0:
            old = m.f[j]
            m.f[j] = a[2]
            I.drop_value_at(Cell(a[1]), 0, m.kt)
            return some(old)
        m.kc.f.append(a[1])
        m.f.append(a[2])
        return NONE()

    @reg('std::collections::HashMap::<K, V, S, A>::remove')
    def map_remove(I, ext, a):
        m = deref_to_value(a[0])
        j = lookup_key(I, ext, m, a[1])
        if j < 0:
            return NONE()
        k = m.kc.f.pop(j)
        v = m.f.pop(j)
        I.drop_value_at(Cell(k), 0, m.kt)
        return some(v)

    @reg('std::collections::HashMap::<K, V, S, A>::len', 'std::collections::HashSet::<T, S, A>::len')
    def map_len(I, ext, a):
        return len(deref_to_value(a[0]).kc.f)

    @reg('std::collections::HashMap::<K, V, S, A>::is_empty', 'std::collections::HashSet::<T, S, A>::is_empty')
    def map_is_empty(I, ext, a):
        return len(deref_to_value(a[0]).kc.f) == 0

    @reg('std::collections::HashMap::<K, V, S, A>::clear', 'std::collections::HashSet::<T, S, A>::clear')
    def map_clear(I, ext, a):
        m = deref_to_value(a[0])
        drop_map_contents(I, m)
        return UNIT()

    def drop_map_contents(I, m):
        for j in range(len(m.kc.f)):
            I.drop_value_at(m.kc, j, m.kt)
            if not m.is_set:
                I.drop_value_at(m, j, m.vt)
        m.kc.f = []
        m.f = []

    def drop_map(I, ext, a):
        m = deref_to_value(a[0])
        if type(m) is not MapObj:
            raise Unsupported('drop of map holding %r' % (m,))
        drop_map_contents(I, m)
        return UNIT()
    M.drops['std::collections::HashMap'] = drop_map
    M.drops['std::collections::HashSet'] = drop_map

    def iteration_order(I, n):
        """a permutation of range(n) chosen by the run (std's order depends on a per-process random seed)"""
        if n <= 1 or I.model_state.get('unordered'):
            return list(range(n))
        # bounded exploration of iteration orders: any element first, the others in insertion order or
        # reversed (all n! orders for n <= 3, 2n of them beyond)
        budget = I.model_state.get('order_budget')
        if budget is not None and budget <= 0:
            return list(range(n))
        rest = list(range(n))
        c1 = I.ctx.nondet_choice('hash-order-first', n)
        first = rest.pop(c1)
        c2 = 0
        if len(rest) > 1:
            c2 = I.ctx.nondet_choice('hash-order-rest-reversed', 2)
            if c2 == 1:
                rest.reverse()
        if budget is not None and (c1 or c2):
            I.model_state['order_budget'] = budget - 1
        return [first] + rest
    M.iteration_order = iteration_order

    @reg("<&'a std::collections::HashMap<K, V, S, A> as std::iter::IntoIterator>::into_iter", 'std::collections::HashMap::<K, V, S, A>::iter',
         'std::collections::HashMap::<K, V, S, A>::iter_mut', "<&'a mut std::collections::HashMap<K, V, S, A> as std::iter::IntoIterator>::into_iter")
    def map_iter(I, ext, a):
        m = deref_to_value(a[0])
        return IterObj(m, 0, None, 'map', iteration_order(I, len(m.kc.f)))

    @reg("<std::collections::hash_map::Iter<'a, K, V> as std::iter::Iterator>::next", "<std::collections::hash_map::IterMut<'a, K, V> as std::iter::Iterator>::next")
    def map_iter_next(I, ext, a):
        it = deref_to_value(a[0])
        if it.pos >= len(it.extra):
            return NONE()
        j = it.extra[it.pos]
        it.pos += 1
        return some(Agg([Ptr(it.c.kc, j), Ptr(it.c, j)]))

    @reg('std::collections::HashMap::<K, V, S, A>::values', 'std::collections::HashMap::<K, V, S, A>::values_mut')
    def map_values(I, ext, a):
        m = deref_to_value(a[0])
        return IterObj(m, 0, None, 'vals', iteration_order(I, len(m.kc.f)))

    @reg("<std::collections::hash_map::Values<'a, K, V> as std::iter::Iterator>::next", "<std::collections::hash_map::ValuesMut<'a, K, V> as std::iter::Iterator>::next")
    def map_values_next(I, ext, a):
        it = deref_to_value(a[0])
        if it.pos >= len(it.extra):
            return NONE()
        j = it.extra[it.pos]
        it.pos += 1
        return some(Ptr(it.c, j))

    @reg('std::collections::HashMap::<K, V, S, A>::keys')
    def map_keys(I, ext, a):
        m = deref_to_value(a[0])
        return IterObj(m, 0, None, 'keys', iteration_order(I, len(m.kc.f)))

    @reg("<std::collections::hash_map::Keys<'a, K, V> as std::iter::Iterator>::next", "<std::collections::hash_set::Iter<'a, K> as std::iter::Iterator>::next")
    def map_keys_next(I, ext, a):
        it = deref_to_value(a[0])
        if it.pos >= len(it.extra):
            return NONE()
        j = it.extra[it.pos]
        it.pos += 1
        return some(Ptr(it.c.kc, j))

    @reg("<&'a std::collections::HashSet<T, S, A> as std::iter::IntoIterator>::into_iter", 'std::collections::HashSet::<T, S, A>::iter')
    def set_iter(I, ext, a):
        m = deref_to_value(a[0])
        return IterObj(m, 0, None, 'keys', iteration_order(I, len(m.kc.f)))

    @reg('<std::collections::HashSet<T, S, A> as std::iter::IntoIterator>::into_iter')
    def set_into_iter(I, ext, a):
        m = a[0]
        order = iteration_order(I, len(m.kc.f))
        items = [m.kc.f[j] for j in order]
        return IterObj(VecObj(m.kt, items), 0, None, 'val', m.kt)

    @reg('<std::collections::hash_set::IntoIter<K> as std::iter::Iterator>::next', '<std::collections::hash_set::IntoIter<K, A> as std::iter::Iterator>::next')
    def set_into_iter_next(I, ext, a):
        it = deref_to_value(a[0])
        if it.pos >= len(it.c.f):
            return NONE()
        v = it.c.f[it.pos]
        it.c.f[it.pos] = UNINIT
        it.pos += 1
        return some(v)
    M.drops['std::collections::hash_set::IntoIter'] = M.drops['std::vec::IntoIter']

    @reg('<std::collections::HashMap<K, V, S, A> as std::iter::IntoIterator>::into_iter')
    def map_into_iter(I, ext, a):
        m = a[0]
        order = iteration_order(I, len(m.kc.f))
        items = [Agg([m.kc.f[j], m.f[j]]) for j in order]
        return IterObj(VecObj(None, items), 0, None, 'val', None)

    @reg('<std::collections::hash_map::IntoIter<K, V, A> as std::iter::Iterator>::next', '<std::collections::hash_map::IntoIter<K, V> as std::iter::Iterator>::next')
    def map_into_iter_next(I, ext, a):
        return set_into_iter_next(I, ext, a)

    def drop_map_intoiter(I, ext, a):
        it = deref_to_value(a[0])
        t = P.tys[targs(ext)[0]]
        kt, vt = t['targs'][0], t['targs'][1]
        for j in range(it.pos, len(it.c.f)):
            pair = it.c.f[j]
            I.drop_value_at(pair, 0, kt)
            I.drop_value_at(pair, 1, vt)
        it.c.f = []
        it.pos = 0
        return UNIT()
    M.drops['std::collections::hash_map::IntoIter'] = drop_map_intoiter

    @reg('std::collections::HashSet::<T, S, A>::insert')
    def set_insert(I, ext, a):
        m = deref_to_value(a[0])
        j = map_find(I, m, a[1])
        if j >= 0:
            I.drop_value_at(Cell(a[1]), 0, m.kt)
            return False
        m.kc.f.append(a[1])
        m.f.append(Agg([]))
        return True

    @reg('std::collections::HashSet::<T, S, A>::contains')
    def set_contains(I, ext, a):
        m = deref_to_value(a[0])
        return lookup_key(I, ext, m, a[1]) >= 0

    @reg('std::collections::HashSet::<T, S, A>::remove')
    def set_remove(I, ext, a):
        m = deref_to_value(a[0])
        j = lookup_key(I, ext, m, a[1])
        if j < 0:
            return False
        k = m.kc.f.pop(j)
        m.f.pop(j)
        I.drop_value_at(Cell(k), 0, m.kt)
        return True

    @reg('<std::collections::HashSet<T, S, A> as std::clone::Clone>::clone')
    def set_clone(I, ext, a):
        m = deref_to_value(a[0])
        c = MapObj(m.kt, None, True)
        clone = M.clone_fn(I, m.kt)
        c.kc.f = [clone(Ptr(m.kc, j)) for j in range(len(m.kc.f))]
        c.f = [Agg([]) for _ in c.kc.f]
        return c

    @reg('<std::collections::HashMap<K, V, S, A> as std::clone::Clone>::clone')
    def map_clone(I, ext, a):
        m = deref_to_value(a[0])
        c = MapObj(m.kt, m.vt)
        ck, cv = M.clone_fn(I, m.kt), M.clone_fn(I, m.vt)
        c.kc.f = [ck(Ptr(m.kc, j)) for j in range(len(m.kc.f))]
        c.f = [cv(Ptr(m, j)) for j in range(len(m.f))]
        return c

    @reg('<std::collections::HashSet<T, S, A> as std::cmp::PartialEq>::eq')
    def set_eq(I, ext, a):
        x, y = deref_to_value(a[0]), deref_to_value(a[1])
        if len(x.kc.f) != len(y.kc.f):
            return False
        for k in x.kc.f:
            if map_find(I, y, k) < 0:
                return False
        return True

    @reg('<std::collections::HashMap<K, V, S, A> as std::cmp::PartialEq>::eq')
    def map_eq(I, ext, a):
        x, y = deref_to_value(a[0]), deref_to_value(a[1])
        if len(x.kc.f) != len(y.kc.f):
            return False
        for j, k in enumerate(x.kc.f):
            jj = map_find(I, y, k)
            if jj < 0 or not val_eq(I, x.vt, x.f[j], y.f[jj]):
                return False
        return True

    @reg('<std::collections::HashSet<T, S> as std::iter::FromIterator<T>>::from_iter')
    def set_from_iter(I, ext, a):
        ts = targs(ext)
        m = MapObj(ts[0], None, True)
        it = a[0]
        items = drain_iter(I, it, ts[-1])
        for x in items:
            if map_find(I, m, x) >= 0:
                I.drop_value_at(Cell(x), 0, m.kt)
            else:
                m.kc.f.append(x)
                m.f.append(Agg([]))
        return m

    def drain_iter(I, it, it_ty):
        """all remaining items of an `impl IntoIterator` value (consumed)"""
        ti = type(it)
        if ti is IterObj and it.mode == 'val':
            items = list(it.c.f[it.pos:])
            it.c.f = []
            return items
        if ti is VecObj:
            items = it.f
            it.f = []
            return items
        if ti is ListIter:
            items = it.items
            it.items = []
            return items
        if ti is MapObj:
            order = M.iteration_order(I, len(it.kc.f))
            items = [it.kc.f[j] if it.is_set else Agg([it.kc.f[j], it.f[j]]) for j in order]
            it.kc.f = []
            it.f = []
            return items
        tk = P.tys[it_ty]
        if ti is Agg and tk['kind'] == 'array':
            return list(it.f)
        if ti is Enum and tk.get('name') == 'std::option::Option':
            return [it.f[0]] if it.v == 1 else []
        if ti is Ptr and tk['kind'] == 'ref':
            tgt = it.c.f[it.i] if it.meta is None else None
            if it.meta is not None and not isinstance(it.meta, Dyn):
                return [Ptr(it.c, it.i + j) for j in range(it.meta)]
            if type(tgt) is VecObj:
                return [Ptr(tgt, j) for j in range(len(tgt.f))]
            if type(tgt) is MapObj:
                order = M.iteration_order(I, len(tgt.kc.f))
                return [Ptr(tgt.kc, j) if tgt.is_set else Agg([Ptr(tgt.kc, j), Ptr(tgt, j)]) for j in order]
        nxt = M.find_method(I, it_ty, 'std::iter::Iterator>::next')
        cell = Cell(it)
        out = []
        while True:
            r = I.call_fn(nxt, [Ptr(cell, 0)])
            if r.v == 0:
                break
            out.append(r.f[0])
        I.drop_value_at(cell, 0, it_ty)
        return out
    M.drain_iter = drain_iter

    # HashMap entry API (or_default / or_insert / or_insert_with)
    @reg('std::collections::HashMap::<K, V, S, A>::entry')
    def map_entry(I, ext, a):
        m = deref_to_value(a[0])
        j = map_find(I, m, a[1])
        return OpaqueObj('entry', (m, j, a[1]))

    def entry_resolve(I, e, mk):
        m, j, key = e.data
        if j < 0:
            m.kc.f.append(key)
            m.f.append(mk())
            j = len(m.f) - 1
        else:
            I.drop_value_at(Cell(key), 0, m.kt)
        return Ptr(m, j)

    @reg("std::collections::hash_map::Entry::<'a, K, V>::or_default")
    def entry_or_default(I, ext, a):
        e = a[0]
        vt = targs(ext)[1]
        return entry_resolve(I, e, lambda: default_value(I, vt))

    @reg("std::collections::hash_map::Entry::<'a, K, V, A>::or_insert")
    def entry_or_insert(I, ext, a):
        return entry_resolve(I, a[0], lambda: a[1])

    @reg("std::collections::hash_map::Entry::<'a, K, V, A>::or_insert_with")
    def entry_or_insert_with(I, ext, a):
        ftid = targs(ext)[-1]
        ft = P.tys[ftid]
        def mk():
            if ft['kind'] == 'closure':
                return I.call_fn(ft['call_once'], [a[1], Agg([])], RUST_CALL)
            if ft['kind'] == 'fndef':
                return I.call_fn(ft['inst'], [])
            raise Unsupported('or_insert_with callee of type %s' % ft['str'])
        if a[0].data[1] >= 0:
            I.drop_value_at(Cell(a[1]), 0, ftid)
        return entry_resolve(I, a[0], mk)

    def default_value(I, tid):
        t = P.tys[tid]
        n = t.get('name', '')
        if n == 'std::vec::Vec':
            return VecObj(t['targs'][0])
        if n == 'std::collections::HashSet':
            return MapObj(t['targs'][0], None, True)
        if n == 'std::collections::HashMap':
            return MapObj(t['targs'][0], t['targs'][1])
        if n == 'std::string::String':
            return StringObj('')
        k = t['kind']
        if k == 'int':
            return 0
        if k == 'bool':
            return False
        if k == 'float':
            return 0.0
        iid = find_inst('<%s as std::default::Default>::default' % t['str'])
        if iid is None:
            raise Unsupported('no Default for %s' % t['str'])
        return I.call_fn(iid, [])
    M.default_value = default_value

    # ------------------------------------------------------------------ String / str
    @reg('<std::string::String as std::convert::From<&str>>::from', '<str as std::string::ToString>::to_string', 'std::str::<impl str>::to_owned', 'std::str::<impl std::borrow::ToOwned for str>::to_owned',
         '<str as std::borrow::ToOwned>::to_owned', 'core::str::<impl str>::to_string', '<std::string::String as std::convert::From<&std::string::String>>::from')
    def string_from_str(I, ext, a):
        v = a[0]
        if type(v) is Ptr:
            v = v.c.f[v.i]
        return StringObj(v.s)

    @reg('std::string::String::new', '<std::string::String as std::default::Default>::default')
    def string_new(I, ext, a):
        return StringObj('')

    @reg('<std::string::String as std::clone::Clone>::clone')
    def string_clone(I, ext, a):
        return StringObj(deref_to_value(a[0]).s)

    @reg('<std::string::String as std::ops::Deref>::deref', 'std::string::String::as_str', '<std::string::String as std::convert::AsRef<str>>::as_ref',
         '<std::string::String as std::borrow::Borrow<str>>::borrow')
    def string_deref(I, ext, a):
        return StrRef(deref_to_value(a[0]).s)

    @reg('<std::string::String as std::cmp::PartialEq>::eq')
    def string_eq(I, ext, a):
        return deref_to_value(a[0]).s == deref_to_value(a[1]).s

    @reg_re(r"^<std::string::String as std::cmp::PartialEq<(&'a )?str>>::eq$|^<(&'a )?str as std::cmp::PartialEq<std::string::String>>::eq$")
    def string_eq_str(I, ext, a):
        def s(x):
            while type(x) is Ptr:
                x = x.c.f[x.i]
            return x.s
        return s(a[0]) == s(a[1])

    @reg('std::string::String::is_empty')
    def string_is_empty(I, ext, a):
        return deref_to_value(a[0]).s == ''

    @reg('std::string::String::len')
    def string_len(I, ext, a):
        return len(deref_to_value(a[0]).s.encode())

    @reg('core::str::<impl str>::is_empty', 'std::str::<impl str>::is_empty')
    def str_is_empty(I, ext, a):
        return a[0].s == ''

    @reg('core::str::<impl str>::len', 'std::str::<impl str>::len')
    def str_len(I, ext, a):
        return len(a[0].s.encode())

    @reg('core::str::<impl str>::trim', 'std::str::<impl str>::trim')
    def str_trim(I, ext, a):
        return StrRef(a[0].s.strip())

    @reg('std::string::String::push_str')
    def string_push_str(I, ext, a):
        s = deref_to_value(a[0])
        s.s += a[1].s
        return UNIT()

    @reg('<T as std::string::ToString>::to_string')
    def to_string(I, ext, a):
        t = P.tys[targs(ext)[0]]
        v = a[0] if type(a[0]) is StrRef else deref_to_value(a[0])
        if t['kind'] == 'str' or type(v) is StrRef:
            return StringObj(v.s if type(v) is StrRef else a[0].s)
        if type(v) is StringObj:
            return StringObj(v.s)
        if type(v) is Enum and t.get('name') == 'std::borrow::Cow':
            return StringObj(v.f[0].s)
        if t['kind'] == 'int' and not is_sym(v):
            return StringObj(str(v))
        if type(v) is OpaqueObj and v.what == 'uuid':
            return StringObj('<uuid-%d>' % v.data)
        return StringObj(_OpaqueStr('<%s>' % t['str'][:40]))

    # ------------------------------------------------------------------ fmt (opaque)
    @reg_re(r"^(core|std)::fmt::rt::Argument::<'_>::new_\w+$")
    def fmt_arg(I, ext, a):
        return OpaqueObj('fmtarg', a[0])

    @reg_re(r"^std::fmt::Arguments::<'a>::(new|from_str|new_const|new_v1|new_v1_formatted)$")
    def fmt_arguments(I, ext, a):
        return OpaqueObj('fmtargs', a)

    @reg('std::fmt::format', 'alloc::fmt::format')
    def fmt_format(I, ext, a):
        return StringObj(_OpaqueStr('<formatted>'))

    @reg('std::io::Write::write_fmt', 'std::io::_print', 'std::io::_eprint')
    def write_fmt(I, ext, a):
        return ok(UNIT()) if ext['dname'].endswith('write_fmt') else UNIT()

    # ------------------------------------------------------------------ log
    @reg('log::max_level')
    def log_max_level(I, ext, a):
        return Enum(0, [])  # LevelFilter::Off

    @reg('<log::Level as std::cmp::PartialOrd<log::LevelFilter>>::partial_cmp')
    def log_level_cmp(I, ext, a):
        lv = deref_to_value(a[0]).v + 1   # Level::Error = 1 ...
        fl = deref_to_value(a[1]).v       # LevelFilter::Off = 0
        return some(Enum((lv > fl) - (lv < fl) + 1, []))

    @reg('log::__private_api::loc')
    def log_loc(I, ext, a):
        return OpaqueObj('loc')

    @reg_re(r'^log::__private_api::log')
    def log_log(I, ext, a):
        return UNIT()

    # ------------------------------------------------------------------ lazy_static / Once
    @reg('lazy_static::lazy::Lazy::<T>::get')
    def lazy_get(I, ext, a):
        lz = a[0]
        st = I.model_state.setdefault('lazy', {})
        key = id(lz.c)
        ent = st.get(key)
        if ent is None:
            f = a[1]
            ts = targs(ext)
            ft = P.tys[ts[1]]
            I.model_state['no_preempt'] = I.model_state.get('no_preempt', 0) + 1
            try:
                if ft['kind'] == 'fndef':
                    v = I.call_fn(ft['inst'], [])
                elif ft['kind'] == 'closure':
                    v = I.call_fn(ft['call_once'], [f, Agg([])], RUST_CALL)
                else:
                    raise Unsupported('lazy initialiser of type %s' % ft['str'])
            finally:
                I.model_state['no_preempt'] -= 1
            ent = (Cell(v, 'lazy'), lz.c)
            st[key] = ent
        return Ptr(ent[0], 0)

    @reg('std::sync::Once::new')
    def once_new(I, ext, a):
        return OnceObj()

    @reg('std::sync::Once::call_once')
    def once_call(I, ext, a):
        o = deref_to_value(a[0])
        if not o.done:
            o.done = True
            ft = P.tys[targs(ext)[0]]
            I.model_state['no_preempt'] = I.model_state.get('no_preempt', 0) + 1
            try:
                if ft['kind'] == 'closure':
                    I.call_fn(ft['call_once'], [a[1], Agg([])], RUST_CALL)
                else:
                    I.call_fn(ft['inst'], [])
            finally:
                I.model_state['no_preempt'] -= 1
        return UNIT()

    @reg('std::sync::Once::is_completed')
    def once_done(I, ext, a):
        return deref_to_value(a[0]).done

    def dec_once(I, t, alloc, off):
        return OnceObj()
    M.decoders['std::sync::Once'] = dec_once

    def dec_lazy(I, t, alloc, off):
        return OpaqueObj('lazy-static-cell')
    M.decoders['lazy_static::lazy::Lazy'] = dec_lazy

    def dec_mutex(I, t, alloc, off):
        lay = t['layout']
        offs = [o['num_bits'] // 8 for o in lay['fields']['Arbitrary']['offsets']]
        fs = t['variants'][0]['fields']
        data = None
        for f, o in zip(fs, offs):
            if f['name'] == 'data':
                ut = P.tys[f['ty']]  # UnsafeCell<T>
                data = I.decode(ut['targs'][0], alloc, off + o)
        return LockObj(data, 'mutex' if t['name'].endswith('Mutex') else 'rwlock')
    M.decoders['std::sync::Mutex'] = dec_mutex
    M.decoders['std::sync::RwLock'] = dec_mutex

    # ------------------------------------------------------------------ thread_local
    @reg('std::thread::LocalKey::<T>::try_with', 'std::thread::LocalKey::<T>::with')
    def localkey_with(I, ext, a):
        key = deref_to_value(a[0])
        # LocalKey { inner: fn(Option<&mut Option<T>>) -> *const T }
        st = I.model_state.setdefault('tls', {})
        inner = key.f[0]
        k = (I.thread_id, inner.inst)
        cell = st.get(k)
        if cell is None:
            p = I.call_fn(inner.inst, [NONE()], CLOSURE_PTR if inner.closure else None)
            cell = p
            st[k] = cell
        ts = targs(ext)
        ft = P.tys[ts[1]]
        r = I.call_fn(ft['call_once'], [a[1], Agg([cell])], RUST_CALL)
        if ext['dname'].endswith('try_with'):
            return ok(r)
        return r

    @reg('std::thread::local_impl::LazyStorage::<T, D>::get_or_init', 'std::thread::local_impl::lazy::Storage::<T, D>::get_or_init')
    def lazystorage_get(I, ext, a):
        st = I.model_state.setdefault('tls_store', {})
        k = (I.thread_id, id(a[0].c))
        cell = st.get(k)
        if cell is None:
            # a[2] is the init fn item
            ts = targs(ext)
            f = a[2]
            ft = P.tys[f.ty] if type(f) is FnItem else None
            if ft is None:
                raise Unsupported('thread_local init %r' % (f,))
            v = I.call_fn(ft['inst'], [])
            cell = Cell(v, 'tls')
            st[k] = cell
        return Ptr(cell, 0)

    def tls_ref(I, item):
        st = I.model_state.setdefault('tls_static', {})
        k = (I.thread_id, item if not isinstance(item, dict) else json_key(item))
        cell = st.get(k)
        if cell is None:
            cell = Cell(OpaqueObj('tls-static'), 'tls-static')
            st[k] = cell
        return Ptr(cell, 0)
    M.thread_local_ref = tls_ref

    def json_key(d):
        import json
        return json.dumps(d, sort_keys=True)

    # ------------------------------------------------------------------ RefCell / Cell
    @reg('std::cell::RefCell::<T>::new')
    def refcell_new(I, ext, a):
        return RefCellObj(a[0])

    @reg('std::cell::RefCell::<T>::borrow')
    def refcell_borrow(I, ext, a):
        c = deref_to_value(a[0])
        if c.borrow < 0:
            raise RustPanic('already mutably borrowed', 'borrow')
        c.borrow += 1
        return BorrowRef(c, False)

    @reg('std::cell::RefCell::<T>::borrow_mut')
    def refcell_borrow_mut(I, ext, a):
        c = deref_to_value(a[0])
        if c.borrow != 0:
            raise RustPanic('already borrowed', 'borrow')
        c.borrow = -1
        return BorrowRef(c, True)

    @reg_re(r"^<std::cell::Ref(Mut)?<'_, T> as std::ops::Deref(Mut)?>::deref(_mut)?$")
    def ref_deref(I, ext, a):
        b = deref_to_value(a[0])
        return Ptr(b.cell, 0)

    def drop_borrow(I, ext, a):
        b = deref_to_value(a[0])
        if b.mut:
            b.cell.borrow = 0
        else:
            b.cell.borrow -= 1
        return UNIT()
    M.drops['std::cell::Ref'] = drop_borrow
    M.drops['std::cell::RefMut'] = drop_borrow

    def drop_refcell(I, ext, a):
        c = deref_to_value(a[0])
        t = P.tys[targs(ext)[0]]
        I.drop_value_at(c, 0, t['targs'][0])
        return UNIT()
    M.drops['std::cell::RefCell'] = drop_refcell

    # ------------------------------------------------------------------ Box<dyn Fn>, Any
    @reg('<std::boxed::Box<F, A> as std::ops::Fn<Args>>::call', '<std::boxed::Box<F, A> as std::ops::FnMut<Args>>::call_mut',
         '<std::boxed::Box<F, A> as std::ops::FnOnce<Args>>::call_once')
    def box_fn_call(I, ext, a):
        b = a[0]
        if type(b) is Ptr:
            b = b.c.f[b.i]
        p = I.box_ptr(b)
        ts = targs(ext)
        ft = P.tys[ts[1]]
        if ft['kind'] == 'dyn':
            ct = P.tys[p.meta.ty]
        else:
            ct = ft
        if ct['kind'] == 'closure':
            return I.call_fn(ct['call_once'], [p.c.f[p.i], a[1]], RUST_CALL)
        if ct['kind'] == 'fndef':
            return I.call_fn(ct['inst'], list(a[1].f))
        if ct['kind'] == 'fnptr':
            return I.call_fn(p.c.f[p.i].inst, list(a[1].f))
        raise Unsupported('Box<%s> call' % ct['str'])

    @reg_re(r"^<\(dyn std::any::Any( \+ std::marker::Send)?( \+ std::marker::Sync)?( \+ 'static)?\)>::(downcast_ref|downcast_mut|is)$")
    def any_downcast(I, ext, a):
        p = a[0]
        want = targs(ext)[0]
        which = ext['dname'].rsplit('::', 1)[1]
        if not isinstance(p.meta, Dyn):
            raise Unsupported('downcast on non-dyn pointer')
        same = p.meta.ty == want
        if which == 'is':
            return same
        return some(Ptr(p.c, p.i)) if same else NONE()

    # ------------------------------------------------------------------ sort
    @reg('core::slice::<impl [T]>::sort_unstable_by_key', 'std::slice::<impl [T]>::sort_unstable_by_key', 'std::slice::<impl [T]>::sort_by_key')
    def sort_by_key(I, ext, a):
        s = a[0]
        ts = targs(ext)
        ft = P.tys[ts[-1]]
        n = s.meta
        keys = []
        for j in range(n):
            k = I.call_fn(ft['call_once'], [a[1], Agg([Ptr(s.c, s.i + j)])], RUST_CALL)
            keys.append(k)
        items = [s.c.f[s.i + j] for j in range(n)]
        stable = ext['dname'].endswith('sort_by_key')
        # insertion sort with solver-decided comparisons; equal keys of an unstable sort may end in any order
        order = []
        for j in range(n):
            pos = 0
            for e in order:
                ke, kx = keys[e], keys[j]
                if is_sym(ke) or is_sym(kx):
                    lt = I.ctx.branch(ke < kx)
                    eq = False if lt else I.ctx.branch(ke == kx)
                else:
                    lt, eq = ke < kx, ke == kx
                if lt:
                    pos += 1
                elif eq:
                    if stable or I.ctx.nondet_choice('sort-tie', 2) == 0:
                        pos += 1
                    else:
                        break
                else:
                    break
            order.insert(pos, j)
        for j, src in enumerate(order):
            s.c.f[s.i + j] = items[src]
        return UNIT()

    # ------------------------------------------------------------------ misc
    @reg('uuid::v4::<impl uuid::Uuid>::new_v4')
    def uuid_new(I, ext, a):
        n = I.model_state.get('uuid', 0) + 1
        I.model_state['uuid'] = n
        return OpaqueObj('uuid', n)

    @reg('std::thread::sleep')
    def thread_sleep(I, ext, a):
        raise Unsupported('real thread::sleep reached (virtual clock not armed?)')


    @reg_re(r'^time::offset_date_time::OffsetDateTime::(now_utc|from_unix_timestamp_nanos|from_unix_timestamp)$')
    def odt_new(I, ext, a):
        o = OpaqueObj('datetime', a[0] if a else None)
        return o if ext['dname'].endswith('now_utc') else ok(o)

    @reg('time::offset_date_time::OffsetDateTime::unix_timestamp_nanos')
    def odt_nanos(I, ext, a):
        raise Unsupported('real clock read (virtual clock not armed)')

    @reg('time::offset_date_time::OffsetDateTime::format')
    def odt_format(I, ext, a):
        return ok(StringObj(_OpaqueStr('<time>')))

    @reg('<time::signed_duration::SignedDuration as std::ops::Div>::div', '<time::duration::Duration as std::ops::Div>::div')
    def dur_div(I, ext, a):
        # only used for MILLISECOND / NANOSECOND
        return 1000000.0

    @reg('intrinsic:ceilf64')
    def ceilf64(I, ext, a):
        x = a[0]
        from .core import SymF
        if type(x) is SymF:
            if x.frac == 0:
                return x
            x = I.symf_concretize(x)
        return math.copysign(float(math.ceil(x)), x) if math.isfinite(x) else x

    @reg('intrinsic:floorf64')
    def floorf64(I, ext, a):
        x = a[0]
        from .core import SymF
        if type(x) is SymF:
            if x.frac == 0:
                return x
            x = I.symf_concretize(x)
        return math.copysign(float(math.floor(x)), x) if math.isfinite(x) and math.floor(x) == 0 else (float(math.floor(x)) if math.isfinite(x) else x)

    @reg('intrinsic:roundf64')
    def roundf64(I, ext, a):
        x = a[0]
        if not math.isfinite(x):
            return x
        ax = abs(x)
        fl_ = math.floor(ax)
        return math.copysign(float(fl_ + 1 if ax - fl_ >= 0.5 else fl_), x)

    @reg('std::ptr::null_mut', 'std::ptr::null')
    def ptr_null(I, ext, a):
        return NullPtr(0)

    @reg_re(r'^std::ptr::(mut_ptr|const_ptr)::<impl \*(mut|const) T>::is_null$')
    def ptr_is_null(I, ext, a):
        return type(a[0]) is NullPtr and a[0].addr == 0

    @reg('dirs::home_dir')
    def home_dir(I, ext, a):
        return some(StringObj('/root'))

    @reg('std::path::Path::join')
    def path_join(I, ext, a):
        base = a[0]
        bs = base.s if hasattr(base, 's') else deref_to_value(base).s
        o = a[1]
        os_ = o.s if hasattr(o, 's') else deref_to_value(o).s
        return StringObj(bs.rstrip('/') + '/' + os_)

    @reg('<std::path::PathBuf as std::ops::Deref>::deref', 'std::path::PathBuf::as_path')
    def pathbuf_deref(I, ext, a):
        return StrRef(deref_to_value(a[0]).s)

    @reg('std::path::Path::to_string_lossy')
    def path_lossy(I, ext, a):
        return Enum(1, [StringObj(a[0].s)])

    @reg('std::env::var_os', 'std::env::var')
    def env_var(I, ext, a):
        return NONE() if ext['dname'].endswith('var_os') else err(Enum(0, []))

    M.drops['std::path::PathBuf'] = M.drops['std::string::String']
    M.drops['std::borrow::Cow'] = M.drops['std::string::String']
    M.drops['std::ffi::OsString'] = M.drops['std::string::String']
    M.drops['std::sync::Once'] = M.drops['std::string::String']
    M.drops['std::sync::atomic::Atomic'] = M.drops['std::string::String']
    M.drops['uuid::Uuid'] = M.drops['std::string::String']


_old_register_all = register_all


def register_all(M):  # noqa: F811
    _old_register_all(M)
    register_batch2(M)


# =============================================================================== batch 3: lru, misc
def register_batch3(M):
    reg = M.reg
    reg_re = M.reg_re
    P = M.p

    def targs(ext):
        return [a['ty'] for a in ext['args'] if 'ty' in a]

    @reg('lru::LruCache::<K, V>::new', 'lru::LruCache::<K, V>::unbounded')
    def lru_new(I, ext, a):
        ts = targs(ext)
        cap = a[0] if a else (1 << 62)
        if is_sym(cap):
            cap = I.ctx.concretize(cap)
        return LruObj(cap, ts[0], ts[1])

    def lru_find(I, l, q):
        key = q.s if type(q) is StrRef else None
        for j, k in enumerate(l.kc.f):
            if key is not None:
                if k.s == key:
                    return j
            elif M.val_eq(I, l.kt, k, q.c.f[q.i]):
                return j
        return -1

    def touch(l, j):
        k = l.kc.f.pop(j)
        v = l.f.pop(j)
        l.kc.f.append(k)
        l.f.append(v)
        return len(l.f) - 1

    @reg('lru::LruCache::<K, V, S>::cap')
    def lru_cap(I, ext, a):
        return deref_to_value(a[0]).cap

    @reg('lru::LruCache::<K, V, S>::len')
    def lru_len(I, ext, a):
        return len(deref_to_value(a[0]).f)

    @reg('lru::LruCache::<K, V, S>::is_empty')
    def lru_is_empty(I, ext, a):
        return len(deref_to_value(a[0]).f) == 0

    @reg('lru::LruCache::<K, V, S>::contains')
    def lru_contains(I, ext, a):
        l = deref_to_value(a[0])
        return lru_find(I, l, a[1]) >= 0

    @reg('lru::LruCache::<K, V, S>::get', 'lru::LruCache::<K, V, S>::get_mut')
    def lru_get(I, ext, a):
        l = deref_to_value(a[0])
        j = lru_find(I, l, a[1])
        if j < 0:
            return NONE()
        j = touch(l, j)
        return some(Ptr(l, j))

    @reg('lru::LruCache::<K, V, S>::peek')
    def lru_peek(I, ext, a):
        l = deref_to_value(a[0])
        j = lru_find(I, l, a[1])
        return some(Ptr(l, j)) if j >= 0 else NONE()

    @reg('lru::LruCache::<K, V, S>::put')
    def lru_put(I, ext, a):
        l = deref_to_value(a[0])
        kcell = Cell(a[1])
        j = lru_find(I, l, Ptr(kcell, 0))
        if j >= 0:
            old = l.f[j]
            l.f[j] = a[2]
            touch(l, j)
            I.drop_value_at(kcell, 0, l.kt)
            return some(old)
        if l.cap == 0:
            I.drop_value_at(kcell, 0, l.kt)
            I.drop_value_at(Cell(a[2]), 0, l.vt)
            return NONE()
        if len(l.f) >= l.cap:
            # evict the least recently used entry
            I.drop_value_at(l.kc, 0, l.kt)
            I.drop_value_at(l, 0, l.vt)
            l.kc.f.pop(0)
            l.f.pop(0)
        l.kc.f.append(a[1])
        l.f.append(a[2])
        return NONE()

    @reg('lru::LruCache::<K, V, S>::pop')
    def lru_pop(I, ext, a):
        l = deref_to_value(a[0])
        j = lru_find(I, l, a[1])
        if j < 0:
            return NONE()
        k = l.kc.f.pop(j)
        v = l.f.pop(j)
        I.drop_value_at(Cell(k), 0, l.kt)
        return some(v)

    @reg('lru::LruCache::<K, V, S>::clear')
    def lru_clear(I, ext, a):
        l = deref_to_value(a[0])
        for j in range(len(l.f)):
            I.drop_value_at(l.kc, j, l.kt)
            I.drop_value_at(l, j, l.vt)
        l.kc.f = []
        l.f = []
        return UNIT()

    @reg('lru::LruCache::<K, V, S>::iter')
    def lru_iter(I, ext, a):
        l = deref_to_value(a[0])
        # most recently used first
        return IterObj(l, 0, None, 'lru', list(range(len(l.f) - 1, -1, -1)))

    @reg("<lru::Iter<'a, K, V> as std::iter::Iterator>::next")
    def lru_iter_next(I, ext, a):
        it = deref_to_value(a[0])
        if it.pos >= len(it.extra):
            return NONE()
        j = it.extra[it.pos]
        it.pos += 1
        return some(Agg([Ptr(it.c.kc, j), Ptr(it.c, j)]))

    @reg("<lru::Iter<'a, K, V> as std::iter::DoubleEndedIterator>::next_back")
    def lru_iter_next_back(I, ext, a):
        it = deref_to_value(a[0])
        if it.pos >= len(it.extra):
            return NONE()
        j = it.extra.pop()
        return some(Agg([Ptr(it.c.kc, j), Ptr(it.c, j)]))

    def drop_lru(I, ext, a):
        l = deref_to_value(a[0])
        for j in range(len(l.f)):
            I.drop_value_at(l.kc, j, l.kt)
            I.drop_value_at(l, j, l.vt)
        l.kc.f = []
        l.f = []
        return UNIT()
    M.drops['lru::LruCache'] = drop_lru

    @reg('intrinsic:roundf64', 'std::f64::<impl f64>::round')
    def f64_round(I, ext, a):
        x = a[0]
        from .core import SymF
        if type(x) is SymF:
            x = I.symf_concretize(x)
        if not math.isfinite(x):
            return x
        ax = abs(x)
        fl_ = math.floor(ax)
        return math.copysign(float(fl_ + 1 if ax - fl_ >= 0.5 else fl_), x)


_old2_register_all = register_all


def register_all(M):  # noqa: F811
    _old2_register_all(M)
    register_batch3(M)


def register_batch4(M):
    reg = M.reg
    reg_re = M.reg_re
    P = M.p

    @reg('sysinfo::traits::SystemExt::new_all', '<sysinfo::linux::system::System as sysinfo::traits::SystemExt>::new_all')
    def sys_new_all(I, ext, a):
        return OpaqueObj('sysinfo')

    @reg_re(r'^(<sysinfo::linux::system::System as )?sysinfo::traits::SystemExt>?::(refresh_memory|refresh_process|refresh_cpu|refresh_all)$')
    def sys_refresh(I, ext, a):
        return UNIT() if not ext['dname'].endswith('refresh_process') else True

    @reg_re(r'^(<sysinfo::linux::system::System as )?sysinfo::traits::SystemExt>?::total_memory$')
    def sys_total_memory(I, ext, a):
        # assumption: the machine has 64 GiB (the harness only uses water marks far below it)
        return 64 * 1024 * 1024 * 1024

    M.drops['sysinfo::System'] = M.drops['std::string::String']
    M.drops['sysinfo::linux::system::System'] = M.drops['std::string::String']


_old3_register_all = register_all


def register_all(M):  # noqa: F811
    _old3_register_all(M)
    register_batch4(M)


class JoinObj:
    __slots__ = ('result', 'panic', 'tid', 'done')

    def __init__(self):
        self.result = None
        self.panic = None
        self.tid = None
        self.done = False


def register_batch5(M):
    reg = M.reg
    P = M.p

    def targs(ext):
        return [a['ty'] for a in ext['args'] if 'ty' in a]

    @reg('std::thread::spawn')
    def thread_spawn(I, ext, a):
        ft = P.tys[targs(ext)[0]]
        sc = I.model_state.get('sched')
        if sc is not None:
            return sc.spawn(I, ft, a[0])
        # sequential semantics: the new thread runs to completion at the spawn point (one legal schedule)
        j = JoinObj()
        n = I.model_state.get('next_tid', 1)
        I.model_state['next_tid'] = n + 1
        j.tid = n
        old = I.thread_id
        I.thread_id = n
        try:
            j.result = I.call_fn(ft['call_once'], [a[0], Agg([])], RUST_CALL)
        except RustPanic as e:
            j.panic = e
        finally:
            I.thread_id = old
        j.done = True
        return j

    @reg('std::thread::JoinHandle::<T>::join')
    def thread_join(I, ext, a):
        j = a[0]
        sc = I.model_state.get('sched')
        if sc is not None:
            sc.join(I, j)
        if j.panic is not None:
            return err(OpaqueObj('panic-payload', j.panic.msg))
        return ok(j.result)

    @reg('std::thread::current', 'std::thread::Thread::id')
    def thread_current(I, ext, a):
        return OpaqueObj('thread', I.thread_id)


_old4_register_all = register_all


def register_all(M):  # noqa: F811
    _old4_register_all(M)
    register_batch5(M)


# ----------------------------------------------------------------------------- batch 6
def register_batch6(M):
    """closure-call helper; the methods slice iterators override (std implements them with raw pointers);
    integer intrinsics that library code reaches through core::num methods"""
    P = M.p
    reg = M.reg

    def targs(ext):
        return [a['ty'] for a in ext['args'] if 'ty' in a]

    def call_callable(I, ftid, f, args):
        """call a callable value (closure, fn item, fn pointer) that the callee may call again later:
        closures go through their body (&self / &mut self), not through the consuming call_once shim"""
        ft = P.tys[ftid]
        k = ft['kind']
        if k == 'closure':
            body = ft.get('call_mut')
            fn = P.fns.get(body) if body else None
            if fn is not None:
                env_ty = P.tys[fn['locals'][1]]
                if env_ty['kind'] == 'ref':
                    cell = f if type(f) is Ptr else None
                    if cell is None:
                        holder = getattr(f, '_cell', None)
                        if holder is None:
                            holder = Cell(f, 'closure-env')
                            try:
                                f._cell = holder
                            except AttributeError:
                                pass
                        cell = Ptr(holder, 0)
                    return I.call_fn(body, [cell, Agg(list(args))], RUST_CALL)
                return I.call_fn(body, [f, Agg(list(args))], RUST_CALL)
            return I.call_fn(ft['call_once'], [f, Agg(list(args))], RUST_CALL)
        if k == 'fndef':
            return I.call_fn(ft['inst'], list(args))
        if k == 'ref':
            # &mut F / &F where F: FnMut
            inner = f.c.f[f.i]
            return call_callable(I, ft['pointee'], inner, args)
        raise Unsupported('call of a %s value from a model' % ft['str'])
    M.call_callable = call_callable

    def truth(I, v):
        return I.ctx.branch(v) if is_sym(v) else bool(v)

    SL = r"^<std::slice::Iter(Mut)?<'a, T> as std::iter::Iterator>::"

    def sl_next(it):
        if it.pos >= it.end:
            return None
        p = Ptr(it.c, it.pos)
        it.pos += 1
        return p

    @M.reg_re(SL + r'(find|position|any|all|find_map|for_each|fold|count|last|nth|rposition)$')
    def slice_iter_method(I, ext, a):
        meth = ext['dname'].rsplit('::', 1)[1]
        it = deref_to_value(a[0]) if meth in ('find', 'position', 'any', 'all', 'find_map', 'nth', 'rposition') else a[0]
        ts = targs(ext)
        if meth == 'count':
            n = it.end - it.pos
            it.pos = it.end
            return n
        if meth == 'last':
            if it.pos >= it.end:
                return NONE()
            p = Ptr(it.c, it.end - 1)
            it.pos = it.end
            return some(p)
        if meth == 'nth':
            n = a[1]
            if is_sym(n):
                n = I.ctx.concretize(n)
            if it.pos + n >= it.end:
                it.pos = it.end
                return NONE()
            it.pos += n
            return some(sl_next(it))
        ftid = ts[-1]
        f = a[-1]
        if meth == 'fold':
            acc = a[1]
            while True:
                p = sl_next(it)
                if p is None:
                    return acc
                acc = call_callable(I, ftid, f, [acc, p])
        if meth == 'for_each':
            while True:
                p = sl_next(it)
                if p is None:
                    return UNIT()
                call_callable(I, ftid, f, [p])
        if meth == 'rposition':
            while it.end > it.pos:
                it.end -= 1
                if truth(I, call_callable(I, ftid, f, [Ptr(it.c, it.end)])):
                    return some(it.end - it.pos)
            return NONE()
        idx = 0
        while True:
            p = sl_next(it)
            if p is None:
                break
            if meth == 'find':
                # the predicate takes &Self::Item
                if truth(I, call_callable(I, ftid, f, [Ptr(Cell(p, 'item'), 0)])):
                    return some(p)
            elif meth == 'find_map':
                r = call_callable(I, ftid, f, [p])
                if r.v == 1:
                    return r
            else:
                t = truth(I, call_callable(I, ftid, f, [p]))
                if meth == 'position' and t:
                    return some(idx)
                if meth == 'any' and t:
                    return True
                if meth == 'all' and not t:
                    return False
            idx += 1
        if meth == 'any':
            return False
        if meth == 'all':
            return True
        return NONE()

    @M.reg_re(r"^<std::slice::Iter(Mut)?<'(a|_), T> as std::iter::(Iterator>::size_hint|ExactSizeIterator>::len)$")
    def slice_iter_len(I, ext, a):
        it = deref_to_value(a[0])
        n = it.end - it.pos
        if ext['dname'].endswith('size_hint'):
            return Agg([n, some(n)])
        return n

    @M.reg_re(r"^<std::slice::Iter(Mut)?<'a, T> as std::iter::DoubleEndedIterator>::nth_back$")
    def slice_iter_nth_back(I, ext, a):
        it = deref_to_value(a[0])
        n = a[1]
        if is_sym(n):
            n = I.ctx.concretize(n)
        if it.end - it.pos <= n:
            it.end = it.pos
            return NONE()
        it.end -= n + 1
        return some(Ptr(it.c, it.end))

    @M.reg_re(r"^<std::slice::Iter(Mut)?<'a, T> as std::iter::Iterator>::__iterator_get_unchecked$")
    def slice_iter_get_unchecked(I, ext, a):
        it = deref_to_value(a[0])
        idx = a[1]
        if is_sym(idx):
            idx = I.ctx.concretize(idx)
        return Ptr(it.c, it.pos + idx)

    @M.reg_re(r"^<std::slice::Iter(Mut)?<'a, T> as std::iter::(Iterator>::advance_by|DoubleEndedIterator>::advance_back_by)$")
    def slice_iter_advance_by(I, ext, a):
        it = deref_to_value(a[0])
        n = a[1]
        if is_sym(n):
            n = I.ctx.concretize(n)
        k = min(n, it.end - it.pos)
        if ext['dname'].endswith('advance_by'):
            it.pos += k
        else:
            it.end -= k
        # Result<(), NonZero<usize>>
        return ok(Agg([])) if k == n else err(n - k)

    @M.reg_re(r"^<std::slice::Iter(Mut)?<'a, T> as std::iter::DoubleEndedIterator>::next_back$")
    def slice_iter_next_back(I, ext, a):
        it = deref_to_value(a[0])
        if it.pos >= it.end:
            return NONE()
        it.end -= 1
        return some(Ptr(it.c, it.end))

    # ---- integer intrinsics
    def int_ty(ext):
        t = P.tys[targs(ext)[0]]
        bits = t['bits']
        if t['signed']:
            return -(1 << (bits - 1)), (1 << (bits - 1)) - 1, bits, True
        return 0, (1 << bits) - 1, bits, False

    def clamp(v, lo, hi):
        if is_sym(v):
            return sx.If(v < lo, lo, sx.If(v > hi, hi, v))
        return lo if v < lo else hi if v > hi else v

    @reg('intrinsic:saturating_add')
    def i_sat_add(I, ext, a):
        lo, hi, _, _ = int_ty(ext)
        return clamp(a[0] + a[1], lo, hi)

    @reg('intrinsic:saturating_sub')
    def i_sat_sub(I, ext, a):
        lo, hi, _, _ = int_ty(ext)
        return clamp(a[0] - a[1], lo, hi)

    def wrap(I, v, lo, hi, bits, signed):
        if is_sym(v):
            m = v % (1 << bits)
            if signed:
                return sx.If(m > hi, m - (1 << bits), m)
            return m
        m = v % (1 << bits)
        if signed and m > hi:
            m -= 1 << bits
        return m

    @reg('intrinsic:wrapping_add')
    def i_wrap_add(I, ext, a):
        return wrap(I, a[0] + a[1], *int_ty(ext))

    @reg('intrinsic:wrapping_sub')
    def i_wrap_sub(I, ext, a):
        return wrap(I, a[0] - a[1], *int_ty(ext))

    @reg('intrinsic:wrapping_mul')
    def i_wrap_mul(I, ext, a):
        x, y = a[0], a[1]
        if is_sym(x) and is_sym(y):
            y = I.ctx.concretize(y)
        return wrap(I, x * y, *int_ty(ext))

    @reg('intrinsic:unchecked_add', 'intrinsic:unchecked_sub', 'intrinsic:unchecked_mul', 'intrinsic:exact_div',
         'intrinsic:unchecked_div', 'intrinsic:unchecked_rem')
    def i_unchecked(I, ext, a):
        op = ext['intrinsic']
        x, y = a[0], a[1]
        if op.endswith('add'):
            return x + y
        if op.endswith('sub'):
            return x - y
        if op.endswith('mul'):
            if is_sym(x) and is_sym(y):
                y = I.ctx.concretize(y)
            return x * y
        if is_sym(y):
            y = I.ctx.concretize(y)
        if y == 0:
            raise RustPanic('division by zero (unchecked)', 'arith')
        if is_sym(x):
            lo, hi, bits, signed = int_ty(ext)
            if signed:
                x = I.ctx.concretize(x)
            else:
                return x / y if not op.endswith('rem') else x % y
        q = abs(x) // abs(y)
        if (x < 0) != (y < 0):
            q = -q
        return x - q * y if op.endswith('rem') else q

    @reg('intrinsic:ctpop', 'intrinsic:ctlz', 'intrinsic:cttz', 'intrinsic:ctlz_nonzero', 'intrinsic:cttz_nonzero', 'intrinsic:bswap', 'intrinsic:bitreverse')
    def i_bits(I, ext, a):
        lo, hi, bits, signed = int_ty(ext)
        x = a[0]
        if is_sym(x):
            x = I.ctx.concretize(x)
        u = x % (1 << bits)
        op = ext['intrinsic']
        if op == 'ctpop':
            return bin(u).count('1')
        if op.startswith('ctlz'):
            return bits - u.bit_length()
        if op.startswith('cttz'):
            return bits if u == 0 else (u & -u).bit_length() - 1
        if op == 'bswap':
            r = int.from_bytes(u.to_bytes(bits // 8, 'little'), 'big')
        else:
            r = int(format(u, '0%db' % bits)[::-1], 2)
        if signed and r > hi:
            r -= 1 << bits
        return r

    @reg('intrinsic:rotate_left', 'intrinsic:rotate_right')
    def i_rotate(I, ext, a):
        lo, hi, bits, signed = int_ty(ext)
        x, n = a[0], a[1]
        if is_sym(x):
            x = I.ctx.concretize(x)
        if is_sym(n):
            n = I.ctx.concretize(n)
        u = x % (1 << bits)
        n %= bits
        if ext['intrinsic'] == 'rotate_right':
            n = (bits - n) % bits
        r = ((u << n) | (u >> (bits - n))) & ((1 << bits) - 1) if n else u
        if signed and r > hi:
            r -= 1 << bits
        return r


_old5_register_all = register_all


def register_all(M):  # noqa: F811
    _old5_register_all(M)
    register_batch6(M)


# ----------------------------------------------------------------------------- batch 7
class ListIter:
    """an iterator whose remaining items were computed when it was created (set operations, drains, chunks, …)"""
    __slots__ = ('items', 'owned_ty')

    def __init__(self, items, owned_ty=None):
        self.items = items
        self.owned_ty = owned_ty      # element type when the iterator owns its items (drains)


def register_batch7(M):
    """wider coverage of the std API a library change may plausibly reach: Vec / slice / HashMap / HashSet methods,
    atomics, locks, Arc, Cell, String, Duration, float intrinsics. Exercised by harness/src/stdx.rs."""
    P = M.p
    reg = M.reg
    reg_re = M.reg_re
    call_callable = M.call_callable
    from .core import SymF

    def targs(ext):
        return [a['ty'] for a in ext['args'] if 'ty' in a]

    def conc(I, v):
        return I.ctx.concretize(v) if is_sym(v) else v

    def truth(I, v):
        return I.ctx.branch(v) if is_sym(v) else bool(v)

    def vec_of(a0):
        v = deref_to_value(a0)
        if type(v) is not VecObj:
            raise Unsupported('Vec method on %r' % (v,))
        return v

    # ------------------------------------------------------------------ list iterators
    LIST_ITERS = (r"std::collections::hash_set::(Union|Intersection|Difference|SymmetricDifference|Drain)<.*>|"
                  r"std::collections::hash_map::Drain<.*>|std::slice::(Chunks|Windows|ChunksExact)<'a, T>|std::vec::Drain<'_, T, A>|std::vec::Drain<'a, T, A>|"
                  r"std::str::(Bytes|Chars)<'.*>")

    @reg_re(r"^<(" + LIST_ITERS + r") as std::iter::Iterator>::next$")
    def list_iter_next(I, ext, a):
        it = deref_to_value(a[0])
        if not it.items:
            return NONE()
        return some(it.items.pop(0))

    @reg_re(r"^<(" + LIST_ITERS + r") as std::iter::DoubleEndedIterator>::next_back$")
    def list_iter_next_back(I, ext, a):
        it = deref_to_value(a[0])
        if not it.items:
            return NONE()
        return some(it.items.pop())

    @reg_re(r"^<(" + LIST_ITERS + r") as std::iter::(Iterator>::size_hint|ExactSizeIterator>::len|Iterator>::count)$")
    def list_iter_len(I, ext, a):
        it = deref_to_value(a[0]) if type(a[0]) is Ptr else a[0]
        n = len(it.items)
        if ext['dname'].endswith('size_hint'):
            return Agg([n, some(n)])
        if ext['dname'].endswith('count'):
            it.items = []
        return n

    def drop_list_iter(I, ext, a):
        it = deref_to_value(a[0])
        if type(it) is ListIter and it.owned_ty is not None:
            for x in it.items:
                I.drop_value_at(Cell(x), 0, it.owned_ty)
            it.items = []
        return UNIT()
    for nm in ('std::vec::Drain', 'std::collections::hash_map::Drain', 'std::collections::hash_set::Drain', 'std::collections::hash_set::Union',
               'std::collections::hash_set::Intersection', 'std::collections::hash_set::Difference', 'std::collections::hash_set::SymmetricDifference',
               'std::slice::Chunks', 'std::slice::Windows', 'std::str::Bytes', 'std::str::Chars'):
        M.drops[nm] = drop_list_iter

    # ------------------------------------------------------------------ Vec
    @reg('std::vec::Vec::<T, A>::retain', 'std::vec::Vec::<T, A>::retain_mut')
    def vec_retain(I, ext, a):
        v = vec_of(a[0])
        ftid = targs(ext)[-1]
        keep = []
        j = 0
        items = v.f
        n = len(items)
        # the predicate sees the element in place
        for j in range(n):
            if truth(I, call_callable(I, ftid, a[1], [Ptr(v, j)])):
                keep.append(j)
        kept = set(keep)
        for j in range(n):
            if j not in kept:
                I.drop_value_at(v, j, v.et)
        v.f = [items[j] for j in keep]
        return UNIT()

    @reg('std::vec::Vec::<T, A>::swap_remove')
    def vec_swap_remove(I, ext, a):
        v = vec_of(a[0])
        idx = conc(I, a[1])
        if idx >= len(v.f):
            raise RustPanic('swap_remove index (is %d) should be < len (is %d)' % (idx, len(v.f)), 'bounds')
        x = v.f[idx]
        last = v.f.pop()
        if idx < len(v.f):
            v.f[idx] = last
        return x

    @reg('std::vec::Vec::<T, A>::dedup')
    def vec_dedup(I, ext, a):
        v = vec_of(a[0])
        out = []
        for j, x in enumerate(v.f):
            if out and M.val_eq(I, v.et, out[-1], x):
                I.drop_value_at(v, j, v.et)
            else:
                out.append(x)
        v.f = out
        return UNIT()

    def range_bounds(I, rng, ext, n):
        rt = P.tys[[x['ty'] for x in ext['args'] if 'ty' in x][-1]]
        name = rt.get('name', '')
        f = rng.f
        if name.endswith('ops::Range'):
            lo, hi = f[0], f[1]
        elif name.endswith('RangeFrom'):
            lo, hi = f[0], n
        elif name.endswith('RangeTo'):
            lo, hi = 0, f[0]
        elif name.endswith('RangeFull'):
            lo, hi = 0, n
        elif name.endswith('RangeInclusive'):
            lo, hi = f[0], f[1] + 1
        else:
            raise Unsupported('range of type %s' % rt['str'])
        lo, hi = conc(I, lo), conc(I, hi)
        if lo > hi or hi > n:
            raise RustPanic('range %d..%d out of bounds for length %d' % (lo, hi, n), 'bounds')
        return lo, hi

    @reg('std::vec::Vec::<T, A>::drain')
    def vec_drain(I, ext, a):
        v = vec_of(a[0])
        lo, hi = range_bounds(I, a[1], ext, len(v.f))
        items = v.f[lo:hi]
        del v.f[lo:hi]
        return ListIter(items, v.et)

    @reg('std::vec::Vec::<T, A>::extend_from_slice')
    def vec_extend_from_slice(I, ext, a):
        v = vec_of(a[0])
        s = a[1]
        clone = M.clone_fn(I, v.et)
        for j in range(s.meta):
            v.f.append(clone(Ptr(s.c, s.i + j)))
        return UNIT()

    @reg('std::vec::Vec::<T, A>::resize')
    def vec_resize(I, ext, a):
        v = vec_of(a[0])
        n = conc(I, a[1])
        cell = Cell(a[2])
        clone = M.clone_fn(I, v.et)
        while len(v.f) > n:
            I.drop_value_at(v, len(v.f) - 1, v.et)
            v.f.pop()
        while len(v.f) < n:
            v.f.append(clone(Ptr(cell, 0)))
        I.drop_value_at(cell, 0, v.et)
        return UNIT()

    @reg('<std::vec::Vec<T, A> as std::iter::Extend<T>>::extend', "<std::vec::Vec<T, A> as std::iter::Extend<&'a T>>::extend")
    def vec_extend(I, ext, a):
        v = vec_of(a[0])
        ts = targs(ext)
        items = M.drain_iter(I, a[1], ts[-1])
        byref = "Extend<&'a T>" in ext['dname']
        for x in items:
            v.f.append(copy_val(x.c.f[x.i]) if byref else x)
        return UNIT()

    @reg("<std::vec::Vec<T, A> as std::iter::Extend<&'a T>>::extend_one", '<std::vec::Vec<T, A> as std::iter::Extend<T>>::extend_one')
    def vec_extend_one(I, ext, a):
        v = vec_of(a[0])
        x = a[1]
        v.f.append(copy_val(x.c.f[x.i]) if "Extend<&'a T>" in ext['dname'] else x)
        return UNIT()

    # ------------------------------------------------------------------ slices
    def sl(p):
        if type(p) is not Ptr or p.meta is None or isinstance(p.meta, Dyn):
            raise Unsupported('slice method on %r' % (p,))
        return p

    @reg('std::slice::<impl [T]>::first', 'std::slice::<impl [T]>::first_mut')
    def slice_first(I, ext, a):
        s = sl(a[0])
        return some(Ptr(s.c, s.i)) if s.meta > 0 else NONE()

    @reg('std::slice::<impl [T]>::last', 'std::slice::<impl [T]>::last_mut')
    def slice_last(I, ext, a):
        s = sl(a[0])
        return some(Ptr(s.c, s.i + s.meta - 1)) if s.meta > 0 else NONE()

    @reg('std::slice::<impl [T]>::get', 'std::slice::<impl [T]>::get_mut')
    def slice_get(I, ext, a):
        s = sl(a[0])
        idx = a[1]
        if type(idx) in (Agg, Enum):
            try:
                lo, hi = range_bounds(I, idx, ext, s.meta)
            except RustPanic:
                return NONE()
            return some(Ptr(s.c, s.i + lo, hi - lo))
        idx = conc(I, idx)
        return some(Ptr(s.c, s.i + idx)) if 0 <= idx < s.meta else NONE()

    @reg('std::slice::<impl [T]>::contains')
    def slice_contains(I, ext, a):
        s = sl(a[0])
        et = targs(ext)[0]
        x = a[1].c.f[a[1].i]
        for j in range(s.meta):
            if M.val_eq(I, et, s.c.f[s.i + j], x):
                return True
        return False

    @reg('std::slice::<impl [T]>::starts_with', 'std::slice::<impl [T]>::ends_with')
    def slice_starts_with(I, ext, a):
        s, t = sl(a[0]), sl(a[1])
        et = targs(ext)[0]
        if t.meta > s.meta:
            return False
        off = 0 if ext['dname'].endswith('starts_with') else s.meta - t.meta
        for j in range(t.meta):
            if not M.val_eq(I, et, s.c.f[s.i + off + j], t.c.f[t.i + j]):
                return False
        return True

    @reg('std::slice::<impl [T]>::reverse')
    def slice_reverse(I, ext, a):
        s = sl(a[0])
        seg = s.c.f[s.i:s.i + s.meta]
        seg.reverse()
        s.c.f[s.i:s.i + s.meta] = seg
        return UNIT()

    @reg('std::slice::<impl [T]>::swap')
    def slice_swap(I, ext, a):
        s = sl(a[0])
        i, j = conc(I, a[1]), conc(I, a[2])
        if i >= s.meta or j >= s.meta:
            raise RustPanic('index out of bounds in swap', 'bounds')
        f = s.c.f
        f[s.i + i], f[s.i + j] = f[s.i + j], f[s.i + i]
        return UNIT()

    @reg('std::slice::<impl [T]>::split_at', 'std::slice::<impl [T]>::split_at_mut')
    def slice_split_at(I, ext, a):
        s = sl(a[0])
        mid = conc(I, a[1])
        if mid > s.meta:
            raise RustPanic('mid > len', 'bounds')
        return Agg([Ptr(s.c, s.i, mid), Ptr(s.c, s.i + mid, s.meta - mid)])

    @reg('std::slice::<impl [T]>::split_first', 'std::slice::<impl [T]>::split_last')
    def slice_split_first(I, ext, a):
        s = sl(a[0])
        if s.meta == 0:
            return NONE()
        if ext['dname'].endswith('split_first'):
            return some(Agg([Ptr(s.c, s.i), Ptr(s.c, s.i + 1, s.meta - 1)]))
        return some(Agg([Ptr(s.c, s.i + s.meta - 1), Ptr(s.c, s.i, s.meta - 1)]))

    @reg('std::slice::<impl [T]>::chunks', 'std::slice::<impl [T]>::windows', 'std::slice::<impl [T]>::chunks_exact')
    def slice_chunks(I, ext, a):
        s = sl(a[0])
        k = conc(I, a[1])
        if k == 0:
            raise RustPanic('chunk/window size must be non-zero', 'explicit')
        items = []
        if ext['dname'].endswith('windows'):
            for j in range(0, s.meta - k + 1):
                items.append(Ptr(s.c, s.i + j, k))
        else:
            j = 0
            while j < s.meta:
                n = min(k, s.meta - j)
                if n < k and ext['dname'].endswith('chunks_exact'):
                    break
                items.append(Ptr(s.c, s.i + j, n))
                j += k
        return ListIter(items)

    @reg('std::slice::<impl [T]>::binary_search')
    def slice_binary_search(I, ext, a):
        s = sl(a[0])
        x = a[1].c.f[a[1].i]
        lo, hi = 0, s.meta
        # any index of an equal element is allowed by the contract; this follows std's current algorithm loosely:
        # report the position by linear scan over the (sorted) slice
        for j in range(s.meta):
            e = s.c.f[s.i + j]
            if truth(I, e == x):
                return ok(j)
            if truth(I, e > x):
                return err(j)
        return err(s.meta)

    def sort_with(I, s, less_eq, stable):
        """insertion sort of the slice with a decided comparison cmp(a_ptr, b_ptr) -> -1/0/1"""
        n = s.meta
        items = [s.c.f[s.i + j] for j in range(n)]
        order = []
        for j in range(n):
            pos = 0
            for e in order:
                c = less_eq(e, j)
                if c < 0:
                    pos += 1
                elif c == 0:
                    if stable or I.ctx.nondet_choice('sort-tie', 2) == 0:
                        pos += 1
                    else:
                        break
                else:
                    break
            order.insert(pos, j)
        for j, src in enumerate(order):
            s.c.f[s.i + j] = items[src]

    def ord_of(I, v):
        return v.v - 1

    @reg('std::slice::<impl [T]>::sort', 'std::slice::<impl [T]>::sort_unstable')
    def slice_sort(I, ext, a):
        s = sl(a[0])
        et = targs(ext)[0]
        t = P.tys[et]
        stable = ext['dname'].endswith('::sort')
        if t['kind'] in ('int', 'bool', 'char'):
            snapshot = [s.c.f[s.i + j] for j in range(s.meta)]
            def cmp(e, j):
                x, y = snapshot[e], snapshot[j]
                if truth(I, x < y):
                    return -1
                return 0 if truth(I, x == y) else 1
        else:
            iid = M.find_inst('<%s as std::cmp::Ord>::cmp' % t['str'])
            if iid is None:
                raise Unsupported('sort of %s: no Ord::cmp instance in the dump' % t['str'])
            snapshot = [Cell(s.c.f[s.i + j]) for j in range(s.meta)]
            def cmp(e, j):
                return ord_of(I, I.call_fn(iid, [Ptr(snapshot[e], 0), Ptr(snapshot[j], 0)]))
        sort_with(I, s, cmp, stable)
        return UNIT()

    @reg('std::slice::<impl [T]>::sort_by', 'std::slice::<impl [T]>::sort_unstable_by')
    def slice_sort_by(I, ext, a):
        s = sl(a[0])
        ftid = targs(ext)[-1]
        snapshot = [Cell(s.c.f[s.i + j]) for j in range(s.meta)]
        def cmp(e, j):
            return ord_of(I, call_callable(I, ftid, a[1], [Ptr(snapshot[e], 0), Ptr(snapshot[j], 0)]))
        sort_with(I, s, cmp, ext['dname'].endswith('::sort_by'))
        return UNIT()

    @reg('std::slice::<impl [T]>::concat')
    def slice_concat(I, ext, a):
        s = sl(a[0])
        ts = targs(ext)
        out = None
        for j in range(s.meta):
            part = s.c.f[s.i + j]
            if type(part) is VecObj:
                if out is None:
                    out = VecObj(part.et)
                clone = M.clone_fn(I, part.et)
                for k in range(len(part.f)):
                    out.f.append(clone(Ptr(part, k)))
            elif type(part) is StringObj or type(part) is StrRef:
                out = StringObj((out.s if out else '') + part.s)
            else:
                raise Unsupported('concat of %r' % (part,))
        if out is None:
            raise Unsupported('concat of an empty slice')
        return out

    @reg('std::slice::<impl [T]>::join')
    def slice_join(I, ext, a):
        s = sl(a[0])
        sep = a[1]
        parts = [s.c.f[s.i + j] for j in range(s.meta)]
        if all(type(p) in (StringObj, StrRef) for p in parts) and type(sep) is StrRef:
            return StringObj(sep.s.join(p.s for p in parts))
        raise Unsupported('join on non-string slices')

    # ------------------------------------------------------------------ HashMap / HashSet
    def map_of(a0):
        m = deref_to_value(a0)
        if type(m) is not MapObj:
            raise Unsupported('map method on %r' % (m,))
        return m

    def key_lookup(I, m, q):
        if type(q) is StrRef:
            for j, k in enumerate(m.kc.f):
                if k.s == q.s:
                    return j
            return -1
        return M.map_find(I, m, q.c.f[q.i])

    def remove_at(I, m, j, drop_key=True, drop_val=True):
        k = m.kc.f.pop(j)
        v = m.f.pop(j)
        return k, v

    @reg('std::collections::HashMap::<K, V, S, A>::retain')
    def map_retain(I, ext, a):
        m = map_of(a[0])
        ftid = targs(ext)[-1]
        order = M.iteration_order(I, len(m.kc.f))
        gone = []
        for j in order:
            if not truth(I, call_callable(I, ftid, a[1], [Ptr(m.kc, j), Ptr(m, j)])):
                gone.append(j)
        for j in sorted(gone, reverse=True):
            I.drop_value_at(m.kc, j, m.kt)
            I.drop_value_at(m, j, m.vt)
            m.kc.f.pop(j)
            m.f.pop(j)
        return UNIT()

    @reg('std::collections::HashSet::<T, S, A>::retain')
    def set_retain(I, ext, a):
        m = map_of(a[0])
        ftid = targs(ext)[-1]
        order = M.iteration_order(I, len(m.kc.f))
        gone = []
        for j in order:
            if not truth(I, call_callable(I, ftid, a[1], [Ptr(m.kc, j)])):
                gone.append(j)
        for j in sorted(gone, reverse=True):
            I.drop_value_at(m.kc, j, m.kt)
            m.kc.f.pop(j)
            m.f.pop(j)
        return UNIT()

    @reg('std::collections::HashMap::<K, V, S, A>::get_key_value')
    def map_get_key_value(I, ext, a):
        m = map_of(a[0])
        j = key_lookup(I, m, a[1])
        return some(Agg([Ptr(m.kc, j), Ptr(m, j)])) if j >= 0 else NONE()

    @reg('std::collections::HashMap::<K, V, S, A>::remove_entry')
    def map_remove_entry(I, ext, a):
        m = map_of(a[0])
        j = key_lookup(I, m, a[1])
        if j < 0:
            return NONE()
        k, v = remove_at(I, m, j)
        return some(Agg([k, v]))

    @reg('std::collections::HashMap::<K, V, S, A>::drain')
    def map_drain(I, ext, a):
        m = map_of(a[0])
        order = M.iteration_order(I, len(m.kc.f))
        items = [Agg([m.kc.f[j], m.f[j]]) for j in order]
        m.kc.f = []
        m.f = []
        tup = None
        for t in P.tys.values() if isinstance(P.tys, dict) else P.tys:
            if t and t.get('kind') == 'tuple' and t.get('fields') == [m.kt, m.vt]:
                tup = t['id']
                break
        return ListIter(items, tup)

    @reg('std::collections::HashSet::<T, S, A>::drain')
    def set_drain(I, ext, a):
        m = map_of(a[0])
        order = M.iteration_order(I, len(m.kc.f))
        items = [m.kc.f[j] for j in order]
        m.kc.f = []
        m.f = []
        return ListIter(items, m.kt)

    @reg('<std::collections::HashMap<K, V, S, A> as std::iter::Extend<(K, V)>>::extend')
    def map_extend(I, ext, a):
        m = map_of(a[0])
        items = M.drain_iter(I, a[1], targs(ext)[-1])
        for kv in items:
            k, v = kv.f[0], kv.f[1]
            j = M.map_find(I, m, k)
            if j >= 0:
                I.drop_value_at(m, j, m.vt)
                m.f[j] = v
                I.drop_value_at(Cell(k), 0, m.kt)
            else:
                m.kc.f.append(k)
                m.f.append(v)
        return UNIT()

    @reg('<std::collections::HashMap<K, V, S> as std::iter::FromIterator<(K, V)>>::from_iter')
    def map_from_iter(I, ext, a):
        ts = targs(ext)
        m = MapObj(ts[0], ts[1])
        items = M.drain_iter(I, a[0], ts[-1])
        for kv in items:
            k, v = kv.f[0], kv.f[1]
            j = M.map_find(I, m, k)
            if j >= 0:
                I.drop_value_at(m, j, m.vt)
                m.f[j] = v
                I.drop_value_at(Cell(k), 0, m.kt)
            else:
                m.kc.f.append(k)
                m.f.append(v)
        return m

    @reg('<std::collections::HashSet<T, S, A> as std::iter::Extend<T>>::extend')
    def set_extend(I, ext, a):
        m = map_of(a[0])
        items = M.drain_iter(I, a[1], targs(ext)[-1])
        for x in items:
            if M.map_find(I, m, x) >= 0:
                I.drop_value_at(Cell(x), 0, m.kt)
            else:
                m.kc.f.append(x)
                m.f.append(Agg([]))
        return UNIT()

    @reg("std::collections::hash_map::Entry::<'a, K, V, A>::and_modify")
    def entry_and_modify(I, ext, a):
        e = a[0]
        m, j, key = e.data
        if j >= 0:
            call_callable(I, targs(ext)[-1], a[1], [Ptr(m, j)])
        else:
            I.drop_value_at(Cell(a[1]), 0, targs(ext)[-1])
        return e

    @reg('std::collections::HashSet::<T, S, A>::get')
    def set_get(I, ext, a):
        m = map_of(a[0])
        j = key_lookup(I, m, a[1])
        return some(Ptr(m.kc, j)) if j >= 0 else NONE()

    @reg('std::collections::HashSet::<T, S, A>::take')
    def set_take(I, ext, a):
        m = map_of(a[0])
        j = key_lookup(I, m, a[1])
        if j < 0:
            return NONE()
        k, _ = remove_at(I, m, j)
        return some(k)

    @reg('std::collections::HashSet::<T, S, A>::replace')
    def set_replace(I, ext, a):
        m = map_of(a[0])
        j = M.map_find(I, m, a[1])
        if j < 0:
            m.kc.f.append(a[1])
            m.f.append(Agg([]))
            return NONE()
        old = m.kc.f[j]
        m.kc.f[j] = a[1]
        return some(old)

    def set_op(which):
        def f(I, ext, a):
            x, y = map_of(a[0]), map_of(a[1])
            ox = M.iteration_order(I, len(x.kc.f))
            inx = lambda k: M.map_find(I, x, k) >= 0
            iny = lambda k: M.map_find(I, y, k) >= 0
            items = []
            if which == 'difference':
                items = [Ptr(x.kc, j) for j in ox if not iny(x.kc.f[j])]
            elif which == 'intersection':
                items = [Ptr(x.kc, j) for j in ox if iny(x.kc.f[j])]
            else:
                oy = M.iteration_order(I, len(y.kc.f))
                if which == 'union':
                    items = [Ptr(x.kc, j) for j in ox] + [Ptr(y.kc, j) for j in oy if not inx(y.kc.f[j])]
                else:
                    items = [Ptr(x.kc, j) for j in ox if not iny(x.kc.f[j])] + [Ptr(y.kc, j) for j in oy if not inx(y.kc.f[j])]
            return ListIter(items)
        return f
    for nm in ('difference', 'intersection', 'union', 'symmetric_difference'):
        reg('std::collections::HashSet::<T, S, A>::' + nm)(set_op(nm))

    @reg('std::collections::HashSet::<T, S, A>::is_subset', 'std::collections::HashSet::<T, S, A>::is_superset', 'std::collections::HashSet::<T, S, A>::is_disjoint')
    def set_rel(I, ext, a):
        x, y = map_of(a[0]), map_of(a[1])
        which = ext['dname'].rsplit('::', 1)[1]
        if which == 'is_superset':
            x, y = y, x
        if which == 'is_disjoint':
            return not any(M.map_find(I, y, k) >= 0 for k in x.kc.f)
        return all(M.map_find(I, y, k) >= 0 for k in x.kc.f)

    # ------------------------------------------------------------------ atomics
    def at(a0):
        o = deref_to_value(a0)
        if type(o) is not AtomicObj:
            raise Unsupported('atomic op on %r' % (o,))
        return o

    def int_info(ext):
        m = re.search(r'Atomic(?:::)?<(\w+)>', ext['dname'])
        nm = m.group(1) if m else 'u64'
        if nm == 'bool':
            return None
        bits = 64 if nm in ('usize', 'isize') else int(nm[1:])
        return bits, nm[0] == 'i'

    @reg_re(r'^std::sync::atomic::Atomic(::)?<.*>::fetch_(xor|nand)$')
    def atomic_fetch_xor(I, ext, a):
        I.sched_point(('atomic', None))
        o = at(a[0])
        old = o.f[0]
        info = int_info(ext)
        if info is None:
            x, y = bool(conc(I, old)), bool(conc(I, a[1]))
            o.f[0] = (x != y) if ext['dname'].endswith('xor') else not (x and y)
            return old
        bits, signed = info
        x, y = conc(I, old) % (1 << bits), conc(I, a[1]) % (1 << bits)
        r = (x ^ y) if ext['dname'].endswith('xor') else (~(x & y)) % (1 << bits)
        if signed and r >= 1 << (bits - 1):
            r -= 1 << bits
        o.f[0] = r
        return old

    @reg_re(r'^std::sync::atomic::Atomic(::)?<.*>::fetch_update$')
    def atomic_fetch_update(I, ext, a):
        o = at(a[0])
        ftid = targs(ext)[-1]
        I.sched_point(('atomic', None))
        while True:
            old = o.f[0]
            r = call_callable(I, ftid, a[3], [old])
            if r.v == 0:
                return err(old)
            I.sched_point(('atomic', None))
            same = o.f[0] is old or (not is_sym(o.f[0]) and not is_sym(old) and o.f[0] == old) or (is_sym(o.f[0]) or is_sym(old)) and truth(I, o.f[0] == old)
            if same:
                o.f[0] = r.f[0]
                return ok(old)

    @reg_re(r'^std::sync::atomic::Atomic(::)?<.*>::(get_mut|as_ptr)$')
    def atomic_get_mut(I, ext, a):
        return Ptr(at(a[0]), 0)

    @reg_re(r'^std::sync::atomic::Atomic(::)?<.*>::into_inner$')
    def atomic_into_inner(I, ext, a):
        return a[0].f[0]

    # ------------------------------------------------------------------ locks, Arc, cells
    @reg('std::sync::Mutex::<T>::into_inner', 'std::sync::RwLock::<T>::into_inner')
    def lock_into_inner(I, ext, a):
        lk = a[0]
        if lk.poisoned:
            return err(Agg([lk.f[0]]))
        return ok(lk.f[0])

    @reg('std::sync::Mutex::<T>::get_mut', 'std::sync::RwLock::<T>::get_mut')
    def lock_get_mut(I, ext, a):
        lk = deref_to_value(a[0])
        p = Ptr(lk, 0, a[0].meta)
        if lk.poisoned:
            return err(Agg([p]))
        return ok(p)

    @reg('std::sync::Mutex::<T>::is_poisoned', 'std::sync::RwLock::<T>::is_poisoned')
    def lock_is_poisoned(I, ext, a):
        return deref_to_value(a[0]).poisoned

    @reg('std::sync::Mutex::<T>::clear_poison', 'std::sync::RwLock::<T>::clear_poison')
    def lock_clear_poison(I, ext, a):
        deref_to_value(a[0]).poisoned = False
        return UNIT()

    def try_acquire(I, a, mode):
        lkp = a[0]
        lk = deref_to_value(lkp)
        if type(lk) is not LockObj:
            raise Unsupported('lock operation on %r' % (lk,))
        I.sched_point(('lock', lk, mode))
        free = lk.writer is None if mode == 'read' else (lk.writer is None and not lk.readers)
        if not free:
            return err(Enum(1, []))
        if mode == 'read':
            lk.readers.append(I.thread_id)
        else:
            lk.writer = I.thread_id
        g = Guard(lk, mode, I.panicking, lkp.meta)
        if lk.poisoned:
            return err(Enum(0, [Agg([g])]))
        return ok(g)

    @reg('std::sync::RwLock::<T>::try_read')
    def rw_try_read(I, ext, a):
        return try_acquire(I, a, 'read')

    @reg('std::sync::RwLock::<T>::try_write')
    def rw_try_write(I, ext, a):
        return try_acquire(I, a, 'write')

    @reg('std::sync::Arc::<T, A>::weak_count')
    def arc_weak_count(I, ext, a):
        return deref_to_value(a[0]).inner.weak

    @reg('std::sync::Arc::<T, A>::get_mut')
    def arc_get_mut(I, ext, a):
        r = deref_to_value(a[0])
        if r.inner.strong == 1 and r.inner.weak == 0:
            return some(Ptr(r.inner, 0, r.meta))
        return NONE()

    @reg('std::sync::Arc::<T, A>::try_unwrap', 'std::sync::Arc::<T, A>::into_inner')
    def arc_try_unwrap(I, ext, a):
        r = a[0]
        into = ext['dname'].endswith('into_inner')
        if r.inner.strong == 1:
            r.inner.strong = 0
            r.inner.dropped = True
            v = r.inner.f[0]
            return some(v) if into else ok(v)
        if into:
            r.inner.strong -= 1
            return NONE()
        return err(r)

    @reg('std::sync::Arc::<T, A>::make_mut')
    def arc_make_mut(I, ext, a):
        cellp = a[0]
        r = cellp.c.f[cellp.i]
        if r.inner.strong == 1 and r.inner.weak == 0:
            return Ptr(r.inner, 0, r.meta)
        clone = M.clone_fn(I, r.inner.ty)
        nv = clone(Ptr(r.inner, 0))
        r.inner.strong -= 1
        if r.inner.strong == 0:
            raise Unsupported('Arc::make_mut with only weak references left')
        nr = ArcRef(ArcInner(nv, r.inner.ty))
        cellp.c.f[cellp.i] = nr
        return Ptr(nr.inner, 0)

    @reg('std::cell::Cell::<T>::new')
    def cell_new(I, ext, a):
        return AtomicObj(a[0])

    @reg('std::cell::Cell::<T>::get')
    def cell_get(I, ext, a):
        return deref_to_value(a[0]).f[0]

    @reg('std::cell::Cell::<T>::set')
    def cell_set(I, ext, a):
        o = deref_to_value(a[0])
        o.f[0] = a[1]
        return UNIT()

    @reg('std::cell::Cell::<T>::replace')
    def cell_replace(I, ext, a):
        o = deref_to_value(a[0])
        old = o.f[0]
        o.f[0] = a[1]
        return old

    @reg('std::cell::Cell::<T>::take')
    def cell_take(I, ext, a):
        o = deref_to_value(a[0])
        old = o.f[0]
        o.f[0] = M.default_value(I, targs(ext)[0])
        return old

    @reg('std::cell::Cell::<T>::into_inner')
    def cell_into_inner(I, ext, a):
        return a[0].f[0]

    # ------------------------------------------------------------------ strings
    def sval(x):
        v = deref_to_value(x) if type(x) is Ptr else x
        if type(v) in (StringObj, StrRef):
            return v.s
        raise Unsupported('string method on %r' % (v,))

    @reg('std::string::String::push')
    def string_push(I, ext, a):
        s = deref_to_value(a[0])
        s.s = s.s + chr(conc(I, a[1]))
        return UNIT()

    @reg('std::string::String::clear')
    def string_clear(I, ext, a):
        deref_to_value(a[0]).s = ''
        return UNIT()

    @reg('<std::string::String as std::cmp::PartialEq<&str>>::eq', '<std::string::String as std::cmp::PartialEq<str>>::eq',
         '<str as std::cmp::PartialEq<std::string::String>>::eq', "<&'a str as std::cmp::PartialEq<std::string::String>>::eq")
    def string_eq_str(I, ext, a):
        x = sval(a[0])
        y = a[1]
        if type(y) is Ptr and type(y.c.f[y.i]) in (StrRef, StringObj):
            y = y.c.f[y.i]
        return x == sval(y)

    @reg('std::str::<impl str>::starts_with', 'std::str::<impl str>::ends_with', 'std::str::<impl str>::contains')
    def str_pred(I, ext, a):
        s = sval(a[0])
        pat = a[1]
        if type(pat) is StrRef or type(pat) is StringObj:
            p = pat.s
        elif isinstance(pat, int):
            p = chr(pat)
        elif type(pat) is Ptr and type(pat.c.f[pat.i]) in (StrRef, StringObj):
            p = pat.c.f[pat.i].s
        else:
            raise Unsupported('string pattern %r' % (pat,))
        which = ext['dname'].rsplit('::', 1)[1]
        return s.startswith(p) if which == 'starts_with' else s.endswith(p) if which == 'ends_with' else (p in s)

    @reg('std::str::traits::<impl std::cmp::Ord for str>::cmp', 'core::str::traits::<impl std::cmp::PartialOrd for str>::partial_cmp')
    def str_cmp(I, ext, a):
        x, y = sval(a[0]).encode(), sval(a[1]).encode()
        o = I.ordering(-1 if x < y else 0 if x == y else 1)
        return some(o) if ext['dname'].endswith('partial_cmp') else o

    @reg('std::string::String::as_bytes', 'std::str::<impl str>::as_bytes')
    def str_as_bytes(I, ext, a):
        b = list(sval(a[0]).encode())
        return Ptr(Cell(None, 'bytes') if False else _bytes_cell(b), 0, len(b))

    def _bytes_cell(b):
        c = Cell(None)
        c.f = b
        return c

    @reg('std::str::<impl str>::bytes')
    def str_bytes(I, ext, a):
        return ListIter(list(sval(a[0]).encode()))

    @reg('std::str::<impl str>::chars')
    def str_chars(I, ext, a):
        return ListIter([ord(ch) for ch in sval(a[0])])

    @reg('std::str::<impl str>::to_lowercase', 'std::str::<impl str>::to_uppercase')
    def str_case(I, ext, a):
        s = sval(a[0])
        return StringObj(s.lower() if ext['dname'].endswith('lowercase') else s.upper())

    @reg('std::cell::RefCell::<T>::try_borrow')
    def refcell_try_borrow(I, ext, a):
        c = deref_to_value(a[0])
        if c.borrow < 0:
            return err(Agg([]))
        c.borrow += 1
        return ok(BorrowRef(c, False))

    @reg('std::cell::RefCell::<T>::try_borrow_mut')
    def refcell_try_borrow_mut(I, ext, a):
        c = deref_to_value(a[0])
        if c.borrow != 0:
            return err(Agg([]))
        c.borrow = -1
        return ok(BorrowRef(c, True))

    @reg('std::cell::RefCell::<T>::into_inner')
    def refcell_into_inner(I, ext, a):
        return a[0].f[0]

    @reg('std::cell::RefCell::<T>::get_mut')
    def refcell_get_mut(I, ext, a):
        return Ptr(deref_to_value(a[0]), 0)

    @reg('std::cell::RefCell::<T>::replace')
    def refcell_replace(I, ext, a):
        c = deref_to_value(a[0])
        if c.borrow != 0:
            raise RustPanic('already borrowed', 'borrow')
        old = c.f[0]
        c.f[0] = a[1]
        return old

    # ---- iterators of std containers override fold & co: generic versions driven by the modelled `next`
    CONT_ITERS = (r"std::collections::hash_map::\w+<.*>|std::collections::hash_set::\w+<.*>|std::vec::IntoIter<T, A>|std::vec::Drain<.*>|"
                  r"enum_map::iter::\w+<.*>|lru::Iter<.*>|std::slice::(Chunks|Windows|ChunksExact)<'a, T>|std::str::(Bytes|Chars)<'.*>")

    @reg_re(r"^<(" + CONT_ITERS + r") as std::iter::Iterator>::(fold|for_each|count|last|nth|find|any|all|position|find_map|min|max)$")
    def cont_iter_method(I, ext, a):
        dn = ext['dname']
        meth = dn.rsplit('::', 1)[1]
        nxt = M.find({'dname': dn.rsplit('::', 1)[0] + '::next'})
        if nxt is None:
            raise Unsupported('no next model for ' + dn)
        byref = meth in ('find', 'any', 'all', 'position', 'find_map', 'nth')
        cellp = a[0] if byref else Ptr(Cell(a[0], 'iter'), 0)
        def step():
            r = nxt(I, ext, [cellp])
            return r.f[0] if r.v == 1 else None
        ts = targs(ext)
        if meth == 'count':
            n = 0
            while step() is not None:
                n += 1
            return n
        if meth == 'last':
            last = None
            while True:
                x = step()
                if x is None:
                    return some(last) if last is not None else NONE()
                last = x
        if meth == 'nth':
            n = conc(I, a[1])
            x = None
            for _ in range(n + 1):
                x = step()
                if x is None:
                    return NONE()
            return some(x)
        ftid = ts[-1]
        f = a[-1]
        if meth == 'fold':
            acc = a[1]
            while True:
                x = step()
                if x is None:
                    return acc
                acc = call_callable(I, ftid, f, [acc, x])
        if meth == 'for_each':
            while True:
                x = step()
                if x is None:
                    return UNIT()
                call_callable(I, ftid, f, [x])
        idx = 0
        while True:
            x = step()
            if x is None:
                break
            if meth == 'find':
                if truth(I, call_callable(I, ftid, f, [Ptr(Cell(x, 'item'), 0)])):
                    return some(x)
            elif meth == 'find_map':
                r = call_callable(I, ftid, f, [x])
                if r.v == 1:
                    return r
            else:
                t = truth(I, call_callable(I, ftid, f, [x]))
                if meth == 'position' and t:
                    return some(idx)
                if meth == 'any' and t:
                    return True
                if meth == 'all' and not t:
                    return False
            idx += 1
        return False if meth == 'any' else True if meth == 'all' else NONE()

    def pat_str(pat):
        if type(pat) in (StrRef, StringObj):
            return pat.s
        if isinstance(pat, int) and not isinstance(pat, bool):
            return chr(pat)
        if type(pat) is Ptr and type(pat.c.f[pat.i]) in (StrRef, StringObj):
            return pat.c.f[pat.i].s
        raise Unsupported('string pattern %r' % (pat,))

    @reg('std::str::<impl str>::find', 'std::str::<impl str>::rfind')
    def str_find(I, ext, a):
        s, p = sval(a[0]), pat_str(a[1])
        j = s.find(p) if ext['dname'].endswith('::find') else s.rfind(p)
        return some(len(s[:j].encode())) if j >= 0 else NONE()

    @reg('std::str::<impl str>::split')
    def str_split(I, ext, a):
        s, p = sval(a[0]), pat_str(a[1])
        return ListIter([StrRef(x) for x in s.split(p)])

    @reg_re(r"^<std::str::Split<'a, P> as std::iter::Iterator>::next$")
    def str_split_next(I, ext, a):
        it = deref_to_value(a[0])
        return some(it.items.pop(0)) if it.items else NONE()
    M.drops['std::str::Split'] = drop_list_iter

    @reg('std::str::<impl str>::replace')
    def str_replace(I, ext, a):
        return StringObj(sval(a[0]).replace(pat_str(a[1]), sval(a[2])))

    @reg('std::str::<impl str>::parse')
    def str_parse(I, ext, a):
        t = P.tys[targs(ext)[0]]
        s = sval(a[0])
        if t['kind'] == 'int':
            body = s[1:] if s[:1] in '+-' else s
            if body.isascii() and body.isdigit() and (s[:1] != '-' or t['signed']):
                v = int(s)
                if t['lo'] <= v <= t['hi']:
                    return ok(v)
            return err(OpaqueObj('parse-int-error'))
        if t['kind'] == 'bool':
            return ok(s == 'true') if s in ('true', 'false') else err(OpaqueObj('parse-bool-error'))
        raise Unsupported('str::parse::<%s>' % t['str'])

    @reg_re(r"^<std::string::String as std::ops::Index<I>>::index$|^std::str::traits::<impl std::ops::Index<I> for str>::index$")
    def string_index(I, ext, a):
        s = sval(a[0])
        b = s.encode()
        lo, hi = range_bounds(I, a[1], ext, len(b))
        try:
            return StrRef(b[lo:hi].decode())
        except UnicodeDecodeError:
            raise RustPanic('byte index is not a char boundary', 'bounds')

    # ---- Rc: single-threaded Arc
    @reg('std::rc::Rc::<T>::new')
    def rc_new(I, ext, a):
        return ArcRef(ArcInner(a[0], targs(ext)[0]))

    @reg('<std::rc::Rc<T, A> as std::clone::Clone>::clone')
    def rc_clone(I, ext, a):
        r = deref_to_value(a[0])
        r.inner.strong += 1
        return ArcRef(r.inner, r.meta)

    @reg('<std::rc::Rc<T, A> as std::ops::Deref>::deref', '<std::rc::Rc<T, A> as std::convert::AsRef<T>>::as_ref')
    def rc_deref(I, ext, a):
        r = deref_to_value(a[0])
        return Ptr(r.inner, 0, r.meta)

    @reg('std::rc::Rc::<T, A>::strong_count')
    def rc_strong(I, ext, a):
        return deref_to_value(a[0]).inner.strong

    @reg('std::rc::Rc::<T, A>::ptr_eq')
    def rc_ptr_eq(I, ext, a):
        return deref_to_value(a[0]).inner is deref_to_value(a[1]).inner
    if 'std::sync::Arc' in M.drops:
        M.drops['std::rc::Rc'] = M.drops['std::sync::Arc']

    # ------------------------------------------------------------------ Duration
    NS = 1000000000

    @reg_re(r'^std::time::Duration::(from_nanos|from_micros|from_millis|from_secs)$')
    def duration_from(I, ext, a):
        mul = {'from_nanos': 1, 'from_micros': 1000, 'from_millis': 1000000, 'from_secs': NS}[ext['dname'].rsplit('::', 1)[1]]
        return OpaqueObj('duration', a[0] * mul)

    @reg_re(r'^std::time::Duration::(as_nanos|as_micros|as_millis|as_secs|subsec_nanos|subsec_micros|subsec_millis)$')
    def duration_as(I, ext, a):
        d = deref_to_value(a[0]) if type(a[0]) is Ptr else a[0]
        ns = d.data
        which = ext['dname'].rsplit('::', 1)[1]
        if is_sym(ns):
            ns = conc(I, ns)
        if which.startswith('as_'):
            return ns // {'as_nanos': 1, 'as_micros': 1000, 'as_millis': 1000000, 'as_secs': NS}[which]
        return (ns % NS) // {'subsec_nanos': 1, 'subsec_micros': 1000, 'subsec_millis': 1000000}[which]

    # ------------------------------------------------------------------ float intrinsics (concrete IEEE doubles)
    def fl(I, x):
        if type(x) is SymF:
            x = I.symf_concretize(x)
        return x

    def f1(name, fn):
        @reg('intrinsic:' + name)
        def g(I, ext, a):
            x = fl(I, a[0])
            try:
                return fn(x)
            except (ValueError, OverflowError):
                return float('nan')
        return g

    f1('truncf64', lambda x: math.copysign(float(math.trunc(x)), x) if math.isfinite(x) else x)
    f1('fabs', lambda x: abs(x))
    f1('fabsf64', lambda x: abs(x))
    f1('sqrtf64', lambda x: math.sqrt(x) if x >= 0 else float('nan'))
    # exp / ln / pow go through the platform libm natively; CPython calls the same libm
    f1('expf64', lambda x: math.exp(x))
    f1('logf64', lambda x: math.log(x) if x > 0 else (float('-inf') if x == 0 else float('nan')))
    f1('log2f64', lambda x: math.log2(x) if x > 0 else (float('-inf') if x == 0 else float('nan')))
    f1('log10f64', lambda x: math.log10(x) if x > 0 else (float('-inf') if x == 0 else float('nan')))

    @reg('intrinsic:copysignf64')
    def i_copysign(I, ext, a):
        return math.copysign(fl(I, a[0]), fl(I, a[1]))

    @reg('intrinsic:powf64')
    def i_powf(I, ext, a):
        try:
            return math.pow(fl(I, a[0]), fl(I, a[1]))
        except (ValueError, OverflowError):
            return float('nan')

    @reg('intrinsic:powif64')
    def i_powi(I, ext, a):
        x, n = fl(I, a[0]), conc(I, a[1])
        # repeated multiplication like compiler-rt's __powidf2
        r = 1.0
        neg = n < 0
        n = abs(n)
        b = x
        while True:
            if n & 1:
                r *= b
            n >>= 1
            if n == 0:
                break
            b *= b
        return 1.0 / r if neg else r

    @reg('intrinsic:fmaf64')
    def i_fma(I, ext, a):
        from fractions import Fraction
        x, y, z = fl(I, a[0]), fl(I, a[1]), fl(I, a[2])
        if not (math.isfinite(x) and math.isfinite(y) and math.isfinite(z)):
            return x * y + z
        return float(Fraction(x) * Fraction(y) + Fraction(z))

    @reg('intrinsic:minimum_number_nsz_f64', 'intrinsic:minnumf64')
    def i_fmin(I, ext, a):
        x, y = fl(I, a[0]), fl(I, a[1])
        if x != x:
            return y
        if y != y:
            return x
        return x if x < y else y

    @reg('intrinsic:maximum_number_nsz_f64', 'intrinsic:maxnumf64')
    def i_fmax(I, ext, a):
        x, y = fl(I, a[0]), fl(I, a[1])
        if x != x:
            return y
        if y != y:
            return x
        return x if x > y else y

    @reg('intrinsic:cold_path', 'intrinsic:assert_inhabited', 'intrinsic:assert_zero_valid', 'intrinsic:assert_mem_uninitialized_valid')
    def i_nop(I, ext, a):
        return UNIT()

    @reg('intrinsic:is_val_statically_known')
    def i_not_known(I, ext, a):
        return False

    @reg('intrinsic:likely', 'intrinsic:unlikely', 'intrinsic:black_box')
    def i_ident(I, ext, a):
        return a[0]


_old6_register_all = register_all


def register_all(M):  # noqa: F811
    _old6_register_all(M)
    register_batch7(M)


# ----------------------------------------------------------------------------- batch 8
def register_batch8(M):
    """try_fold of the container iterators (what find / any / all / position compile to), slice indexing by ranges"""
    P = M.p
    reg = M.reg
    reg_re = M.reg_re
    call_callable = M.call_callable

    def targs(ext):
        return [a['ty'] for a in ext['args'] if 'ty' in a]

    def try_protocol(rtid):
        """(is_continue(value) -> payload or None, from_output(acc)) for the Try types used in practice"""
        t = P.tys[rtid]
        name = t.get('name', '')
        if name == 'std::ops::ControlFlow':
            return (lambda r: (r.f[0],) if r.v == 0 else None), (lambda acc: Enum(0, [acc]))
        if name == 'std::option::Option':
            return (lambda r: (r.f[0],) if r.v == 1 else None), (lambda acc: Enum(1, [acc]))
        if name == 'std::result::Result':
            return (lambda r: (r.f[0],) if r.v == 0 else None), (lambda acc: Enum(0, [acc]))
        if name == 'std::ops::try_trait::NeverShortCircuit':
            return (lambda r: (r.f[0],)), (lambda acc: Agg([acc]))
        raise Unsupported('try_fold with result type %s' % t['str'])

    def try_fold(I, ext, step, a):
        ts = targs(ext)
        rtid, ftid = ts[-1], ts[-2]
        cont, from_output = try_protocol(rtid)
        acc = a[1]
        while True:
            x = step()
            if x is None:
                return from_output(acc)
            r = call_callable(I, ftid, a[2], [acc, x])
            c = cont(r)
            if c is None:
                return r
            acc = c[0]

    CONT = (r"std::collections::hash_map::\w+<.*>|std::collections::hash_set::\w+<.*>|std::vec::IntoIter<T, A>|std::vec::Drain<.*>|"
            r"enum_map::iter::\w+<.*>|lru::Iter<.*>|std::slice::(Chunks|Windows|ChunksExact)<'a, T>|std::str::(Bytes|Chars)<'.*>")

    @reg_re(r"^<(" + CONT + r") as std::iter::Iterator>::try_fold$")
    def cont_try_fold(I, ext, a):
        dn = ext['dname']
        nxt = M.find({'dname': dn.rsplit('::', 1)[0] + '::next'})
        if nxt is None:
            raise Unsupported('no next model for ' + dn)
        def step():
            r = nxt(I, ext, [a[0]])
            return r.f[0] if r.v == 1 else None
        return try_fold(I, ext, step, a)

    @reg_re(r"^<(std::collections::hash_map::\\w+<.*>|std::collections::hash_set::\\w+<.*>|std::vec::IntoIter<T, A>|enum_map::iter::\\w+<.*>) as std::iter::(Iterator>::size_hint|ExactSizeIterator>::len)$")
    def cont_iter_len(I, ext, a):
        it = deref_to_value(a[0])
        if type(it) is ListIter:
            n = len(it.items)
        elif type(it) is IterObj:
            if it.extra is not None and isinstance(it.extra, list):
                n = len(it.extra) - it.pos
            elif it.end is not None:
                n = it.end - it.pos
            else:
                n = len(it.c.f) - it.pos
        else:
            raise Unsupported('size of iterator %r' % (it,))
        if ext['dname'].endswith('size_hint'):
            return Agg([n, some(n)])
        return n

    @reg_re(r"^<std::slice::Iter(Mut)?<'a, T> as std::iter::Iterator>::try_fold$")
    def slice_try_fold(I, ext, a):
        it = deref_to_value(a[0])
        def step():
            if it.pos >= it.end:
                return None
            p = Ptr(it.c, it.pos)
            it.pos += 1
            return p
        return try_fold(I, ext, step, a)

    @reg('std::slice::index::<impl std::ops::Index<I> for [T]>::index', 'std::slice::index::<impl std::ops::IndexMut<I> for [T]>::index_mut')
    def slice_index(I, ext, a):
        s = a[0]
        idx = a[1]
        if type(idx) in (Agg, Enum):
            rt = P.tys[targs(ext)[-1]]
            name = rt.get('name', '')
            n = s.meta
            f = idx.f
            if name.endswith('ops::Range'):
                lo, hi = f[0], f[1]
            elif name.endswith('RangeFrom'):
                lo, hi = f[0], n
            elif name.endswith('RangeTo'):
                lo, hi = 0, f[0]
            elif name.endswith('RangeFull'):
                lo, hi = 0, n
            elif name.endswith('RangeInclusive'):
                lo, hi = f[0], f[1] + 1
            elif name.endswith('RangeToInclusive'):
                lo, hi = 0, f[0] + 1
            else:
                raise Unsupported('slice index by %s' % rt['str'])
            lo = I.ctx.concretize(lo) if is_sym(lo) else lo
            hi = I.ctx.concretize(hi) if is_sym(hi) else hi
            if lo > hi or hi > n:
                raise RustPanic('range end index %d out of range for slice of length %d' % (hi, n), 'bounds')
            return Ptr(s.c, s.i + lo, hi - lo)
        if is_sym(idx):
            idx = I.ctx.concretize(idx)
        if idx < 0 or idx >= s.meta:
            raise RustPanic('index out of bounds: the len is %d but the index is %d' % (s.meta, idx), 'bounds')
        return Ptr(s.c, s.i + idx)


_old7_register_all = register_all


def register_all(M):  # noqa: F811
    _old7_register_all(M)
    register_batch8(M)
