"""API-level models of the external (non-descended) functions.

Every model is part of the trusted base of the encoding; each is exercised by the
differential self-test (concrete runs compared against the native binary).
"""
import math
import re
import struct
import z3
from .core import (Agg, Enum, Cell, Ptr, Dyn, FnItem, FnPtr, StrRef, NullPtr, UNINIT, Unsupported, RustPanic,
                   PathEnd, is_sym, copy_val, f32_round)


# ----------------------------------------------------------------------------- heap objects
class VecObj:
    __slots__ = ('f', 'et')

    def __init__(self, et, items=None):
        self.f = items if items is not None else []
        self.et = et

    def __repr__(self):
        return 'Vec%r' % (self.f,)


class StringObj:
    __slots__ = ('s',)

    def __init__(self, s):
        self.s = s

    def __repr__(self):
        return 'String(%r)' % self.s


class ArcInner:
    __slots__ = ('f', 'strong', 'weak', 'ty', 'dropped')

    def __init__(self, v, ty):
        self.f = [v]
        self.strong = 1
        self.weak = 0
        self.ty = ty
        self.dropped = False


class ArcRef:
    __slots__ = ('inner', 'meta')

    def __init__(self, inner, meta=None):
        self.inner = inner
        self.meta = meta

    def ptr_identity(self):
        return self.inner

    def __repr__(self):
        return 'Arc@%x' % (id(self.inner) & 0xffff)


class WeakRef:
    __slots__ = ('inner', 'meta')

    def __init__(self, inner, meta=None):
        self.inner = inner
        self.meta = meta


class LockObj:
    """Mutex / RwLock"""
    __slots__ = ('f', 'writer', 'readers', 'poisoned', 'kind')

    def __init__(self, v, kind):
        self.f = [v]
        self.writer = None
        self.readers = []
        self.poisoned = False
        self.kind = kind


class Guard:
    __slots__ = ('lock', 'mode', 'released', 'panicking_at_lock')

    def __init__(self, lock, mode, panicking):
        self.lock = lock
        self.mode = mode
        self.released = False
        self.panicking_at_lock = panicking


class AtomicObj:
    __slots__ = ('f',)

    def __init__(self, v):
        self.f = [v]

    def __repr__(self):
        return 'Atomic(%r)' % (self.f[0],)


class IterObj:
    """iterator over a list-like container: yields pointers (by_ref) or values"""
    __slots__ = ('c', 'pos', 'end', 'mode', 'extra')

    def __init__(self, c, pos, end, mode, extra=None):
        self.c = c
        self.pos = pos
        self.end = end
        self.mode = mode
        self.extra = extra


class OnceObj:
    __slots__ = ('done',)

    def __init__(self):
        self.done = False


class ErrObj:
    """anyhow::Error (opaque)"""
    __slots__ = ('msg',)

    def __init__(self, msg):
        self.msg = msg

    def __repr__(self):
        return 'Error(%r)' % (self.msg,)


def some(v):
    return Enum(1, [v])


NONE = lambda: Enum(0, [])


def ok(v):
    return Enum(0, [v])


def err(v):
    return Enum(1, [v])


UNIT = lambda: Agg([])


class Models:
    def __init__(self, prog):
        self.p = prog
        self.exact = {}
        self.regex = []
        self.decoders = {}
        self.unsizers = {}
        self.drops = {}
        self.missing = {}
        register_all(self)

    def reg(self, *names):
        def deco(f):
            for n in names:
                self.exact[n] = f
            return f
        return deco

    def reg_re(self, pat):
        def deco(f):
            self.regex.append((re.compile(pat), f))
            return f
        return deco

    def find(self, ext):
        dn = ext['dname']
        f = self.exact.get(dn)
        if f is None:
            for pat, g in self.regex:
                if pat.search(dn):
                    f = g
                    break
        return f

    def call(self, I, ext, args):
        f = ext.get('_model')
        if f is None:
            f = self.find(ext)
            if f is None:
                if ext.get('intrinsic'):
                    f = self.exact.get('intrinsic:' + ext['intrinsic'])
                if f is None:
                    self.missing[ext['dname']] = ext['name']
                    raise Unsupported('no model for external %s  [%s]' % (ext['name'], ext['dname']))
            ext['_model'] = f
        return f(I, ext, args)

    def thread_local_ref(self, I, item):
        raise Unsupported('ThreadLocalRef')


def targ(ext, i=0):
    return [a['ty'] for a in ext['args'] if 'ty' in a][i]


def fn_ret_ty(I, ext):
    """return type id of the external's signature, through its FnDef type string is not available: use fty"""
    return None


def deref_to_value(v):
    """pointer -> pointee value"""
    return v.c.f[v.i]


def as_int(I, v):
    return v


def register_all(M):
    reg = M.reg
    reg_re = M.reg_re
    P = M.p

    # ------------------------------------------------------------------ harness runtime
    @reg('harness::vrt::any_u64', 'harness::vrt::any_u32', 'harness::vrt::any_i64', 'harness::vrt::any_usize')
    def any_int(I, ext, a):
        return I.ctx.fresh_input(a[0].s, a[1], a[2])

    @reg('harness::vrt::any_bool')
    def any_bool(I, ext, a):
        v = I.ctx.fresh_input(a[0].s, 0, 1)
        return (v != 0) if is_sym(v) else bool(v)

    @reg('harness::vrt::assume')
    def assume(I, ext, a):
        I.ctx.assume(a[0])
        return UNIT()

    @reg('harness::vrt::check')
    def check(I, ext, a):
        I.ctx.check_prop(a[0], a[1].s)
        return UNIT()

    @reg('harness::vrt::cover')
    def cover(I, ext, a):
        if a[0].s not in I.ctx.covers:
            I.ctx.covers.append(a[0].s)
        return UNIT()

    @reg('harness::vrt::observe')
    def observe(I, ext, a):
        I.ctx.observations.append((a[0].s, a[1]))
        return UNIT()

    @reg('harness::vrt::observe_f64')
    def observe_f64(I, ext, a):
        I.ctx.observations.append((a[0].s, struct.unpack('<Q', struct.pack('<d', a[1]))[0]))
        return UNIT()

    # ------------------------------------------------------------------ panics
    @reg('std::result::unwrap_failed')
    def unwrap_failed(I, ext, a):
        raise RustPanic('called `Result::unwrap()` on an `Err` value: %s' % (a[0].s if type(a[0]) is StrRef else ''), 'unwrap')

    @reg('std::option::unwrap_failed')
    def opt_unwrap_failed(I, ext, a):
        raise RustPanic('called `Option::unwrap()` on a `None` value', 'unwrap')

    @reg('std::option::expect_failed', 'core::option::expect_failed')
    def expect_failed(I, ext, a):
        raise RustPanic('expect failed: %s' % (a[0].s if type(a[0]) is StrRef else ''), 'expect')

    @reg_re(r'^(core|std)::panicking::(panic|panic_fmt|panic_explicit|panic_display|panic_str_2015|unreachable_display|panic_nounwind|panic_nounwind_fmt|panic_bounds_check|panic_const::.*|assert_failed.*|panic_cannot_unwind|panic_in_cleanup)$')
    def panic_any(I, ext, a):
        msg = a[0].s if a and type(a[0]) is StrRef else ext['dname']
        raise RustPanic('panic: %s' % msg, 'explicit')

    @reg_re(r'^std::rt::(begin_panic|panic_fmt)')
    def begin_panic(I, ext, a):
        raise RustPanic('panic', 'explicit')

    @reg('std::thread::panicking')
    def thread_panicking(I, ext, a):
        return I.panicking

    # ------------------------------------------------------------------ Arc / Weak
    @reg('std::sync::Arc::<T>::new')
    def arc_new(I, ext, a):
        return ArcRef(ArcInner(a[0], targ(ext)))

    @reg('<std::sync::Arc<T, A> as std::clone::Clone>::clone')
    def arc_clone(I, ext, a):
        r = deref_to_value(a[0])
        r.inner.strong += 1
        return ArcRef(r.inner, r.meta)

    @reg('<std::sync::Arc<T, A> as std::ops::Deref>::deref', '<std::sync::Arc<T, A> as std::convert::AsRef<T>>::as_ref',
         '<std::sync::Arc<T, A> as std::borrow::Borrow<T>>::borrow', 'std::sync::Arc::<T, A>::as_ptr')
    def arc_deref(I, ext, a):
        r = deref_to_value(a[0])
        return Ptr(r.inner, 0, r.meta)

    @reg('std::sync::Arc::<T, A>::ptr_eq')
    def arc_ptr_eq(I, ext, a):
        return deref_to_value(a[0]).inner is deref_to_value(a[1]).inner

    @reg('std::sync::Arc::<T, A>::strong_count')
    def arc_strong(I, ext, a):
        return deref_to_value(a[0]).inner.strong

    @reg('std::sync::Arc::<T, A>::downgrade')
    def arc_downgrade(I, ext, a):
        r = deref_to_value(a[0])
        r.inner.weak += 1
        return WeakRef(r.inner, r.meta)

    @reg('std::sync::Weak::<T, A>::upgrade')
    def weak_upgrade(I, ext, a):
        w = deref_to_value(a[0])
        if w.inner is None or w.inner.strong == 0:
            return NONE()
        w.inner.strong += 1
        return some(ArcRef(w.inner, w.meta))

    @reg('std::sync::Weak::<T>::new')
    def weak_new(I, ext, a):
        return WeakRef(None)

    def drop_arc(I, ext, a):
        r = deref_to_value(a[0])
        if type(r) is not ArcRef:
            raise Unsupported('drop of Arc holding %r' % (r,))
        inner = r.inner
        inner.strong -= 1
        if inner.strong == 0 and not inner.dropped:
            inner.dropped = True
            ty = r.meta.ty if isinstance(r.meta, Dyn) else inner.ty
            I.drop_value_at(inner, 0, ty)
        return UNIT()
    M.drops['std::sync::Arc'] = drop_arc

    def drop_weak(I, ext, a):
        w = deref_to_value(a[0])
        if w.inner is not None:
            w.inner.weak -= 1
        return UNIT()
    M.drops['std::sync::Weak'] = drop_weak

    def unsize_arc(I, v, src, dst):
        st = P.tys[src['targs'][0]]
        dt = P.tys[dst['targs'][0]]
        if dt['kind'] == 'dyn':
            if st['kind'] == 'dyn':
                return v
            return ArcRef(v.inner, Dyn(st['id']))
        raise Unsupported('unsize Arc<%s>' % st['str'])
    M.unsizers['std::sync::Arc'] = unsize_arc

    # ------------------------------------------------------------------ Box
    def make_box(I, box_tid, ptr):
        """build the nested struct value of Box<T> around ptr"""
        def build(tid, depth=0):
            t = P.tys[tid]
            if t['kind'] in ('ptr', 'ref'):
                return ptr
            if t['kind'] == 'adt' and t['adt'] == 'struct':
                fs = t['variants'][0]['fields']
                out = []
                for j, f in enumerate(fs):
                    if j == 0:
                        out.append(build(f['ty'], depth + 1))
                    else:
                        out.append(I.zst(f['ty']) if P.tys[f['ty']]['size'] == 0 else UNINIT)
                return Agg(out)
            raise Unsupported('box layout %s' % t['str'])
        return build(box_tid)
    M.make_box = make_box

    def find_ty(s):
        return P.ty_by_str.get(s)

    def box_ty_of(elem_tid):
        s = 'std::boxed::Box<%s>' % P.tys[elem_tid]['str']
        tid = find_ty(s)
        if tid is None:
            raise Unsupported('no Box type for %s in dump' % P.tys[elem_tid]['str'])
        return tid

    @reg('std::boxed::Box::<T>::new')
    def box_new(I, ext, a):
        et = targ(ext)
        return make_box(I, box_ty_of(et), Ptr(Cell(a[0], 'box'), 0))

    @reg('std::boxed::Box::<T>::pin')
    def box_pin(I, ext, a):
        et = targ(ext)
        b = make_box(I, box_ty_of(et), Ptr(Cell(a[0], 'box'), 0))
        return Agg([b])

    def drop_box(I, ext, a):
        b = deref_to_value(a[0])
        p = I.box_ptr(b)
        bt = P.tys[targ(ext)]
        et = bt['targs'][0]
        if type(p) is Ptr:
            I.drop_value_at(p.c, p.i, et, p.meta)
        return UNIT()
    M.drops['std::boxed::Box'] = drop_box

    # ------------------------------------------------------------------ Vec
    @reg('std::vec::Vec::<T>::new', 'std::vec::Vec::<T>::with_capacity', '<std::vec::Vec<T> as std::default::Default>::default')
    def vec_new(I, ext, a):
        return VecObj(targ(ext))

    @reg('std::vec::Vec::<T, A>::push')
    def vec_push(I, ext, a):
        deref_to_value(a[0]).f.append(a[1])
        return UNIT()

    @reg('std::vec::Vec::<T, A>::pop')
    def vec_pop(I, ext, a):
        v = deref_to_value(a[0])
        return some(v.f.pop()) if v.f else NONE()

    @reg('std::vec::Vec::<T, A>::len')
    def vec_len(I, ext, a):
        return len(deref_to_value(a[0]).f)

    @reg('std::vec::Vec::<T, A>::is_empty')
    def vec_is_empty(I, ext, a):
        return len(deref_to_value(a[0]).f) == 0

    @reg('std::vec::Vec::<T, A>::clear')
    def vec_clear(I, ext, a):
        v = deref_to_value(a[0])
        drop_items(I, v)
        return UNIT()

    def drop_items(I, v):
        if P.tys[v.et].get('drop'):
            items = v.f
            for j in range(len(items)):
                I.drop_value_at(v, j, v.et)
        v.f = []

    @reg('std::vec::Vec::<T, A>::remove')
    def vec_remove(I, ext, a):
        v = deref_to_value(a[0])
        idx = I.ctx.concretize(a[1])
        if idx >= len(v.f):
            raise RustPanic('removal index (is %d) should be < len (is %d)' % (idx, len(v.f)))
        return v.f.pop(idx)

    @reg('std::vec::Vec::<T, A>::insert')
    def vec_insert(I, ext, a):
        v = deref_to_value(a[0])
        idx = I.ctx.concretize(a[1])
        if idx > len(v.f):
            raise RustPanic('insertion index (is %d) should be <= len (is %d)' % (idx, len(v.f)))
        v.f.insert(idx, a[2])
        return UNIT()

    @reg('std::vec::Vec::<T, A>::append')
    def vec_append(I, ext, a):
        v = deref_to_value(a[0])
        o = deref_to_value(a[1])
        v.f.extend(o.f)
        o.f = []
        return UNIT()

    @reg('std::vec::Vec::<T, A>::truncate')
    def vec_truncate(I, ext, a):
        v = deref_to_value(a[0])
        n = I.ctx.concretize(a[1])
        while len(v.f) > n:
            j = len(v.f) - 1
            I.drop_value_at(v, j, v.et)
            v.f.pop()
        return UNIT()

    @reg('std::vec::Vec::<T, A>::reserve', 'std::vec::Vec::<T, A>::shrink_to_fit')
    def vec_reserve(I, ext, a):
        return UNIT()

    @reg('std::vec::Vec::<T, A>::capacity')
    def vec_capacity(I, ext, a):
        return len(deref_to_value(a[0]).f)

    @reg('<std::vec::Vec<T, A> as std::ops::Index<I>>::index', '<std::vec::Vec<T, A> as std::ops::IndexMut<I>>::index_mut')
    def vec_index(I, ext, a):
        v = deref_to_value(a[0])
        idx = a[1]
        if type(idx) is Agg or type(idx) is Enum:
            return slice_range(I, Ptr(v, 0, len(v.f)), idx, ext)
        n = len(v.f)
        if is_sym(idx):
            idx = I.ctx.concretize(idx)
        if idx < 0 or idx >= n:
            raise RustPanic('index out of bounds: the len is %d but the index is %d' % (n, idx), 'bounds')
        return Ptr(v, idx)

    def slice_range(I, sl, rng, ext):
        # Range / RangeFrom / RangeTo / RangeFull over a slice pointer
        rt = P.tys[[x['ty'] for x in ext['args'] if 'ty' in x][-1]]
        n = sl.meta
        name = rt.get('name', '')
        f = rng.f
        if name.endswith('ops::Range'):
            lo, hi = f[0], f[1]
        elif name.endswith('RangeFrom'):
            lo, hi = f[0], n
        elif name.endswith('RangeTo'):
            lo, hi = 0, f[0]
        elif name.endswith('RangeFull'):
            lo, hi = 0, n
        else:
            raise Unsupported('slice index by %s' % rt['str'])
        lo = I.ctx.concretize(lo)
        hi = I.ctx.concretize(hi)
        if lo > hi or hi > n:
            raise RustPanic('slice index out of range', 'bounds')
        return Ptr(sl.c, sl.i + lo, hi - lo)

    @reg('<std::vec::Vec<T, A> as std::ops::Deref>::deref', '<std::vec::Vec<T, A> as std::ops::DerefMut>::deref_mut',
         'std::vec::Vec::<T, A>::as_slice', 'std::vec::Vec::<T, A>::as_mut_slice',
         '<std::vec::Vec<T, A> as std::convert::AsRef<[T]>>::as_ref', '<std::vec::Vec<T, A> as std::borrow::Borrow<[T]>>::borrow')
    def vec_deref(I, ext, a):
        v = deref_to_value(a[0])
        return Ptr(v, 0, len(v.f))

    @reg('<std::vec::Vec<T, A> as std::iter::IntoIterator>::into_iter')
    def vec_into_iter(I, ext, a):
        v = a[0]
        return IterObj(v, 0, None, 'val', v.et)

    @reg('<std::vec::IntoIter<T, A> as std::iter::Iterator>::next')
    def vec_intoiter_next(I, ext, a):
        it = deref_to_value(a[0])
        if it.pos >= len(it.c.f):
            return NONE()
        v = it.c.f[it.pos]
        it.c.f[it.pos] = UNINIT
        it.pos += 1
        return some(v)

    def drop_vec_intoiter(I, ext, a):
        it = deref_to_value(a[0])
        for j in range(it.pos, len(it.c.f)):
            I.drop_value_at(it.c, j, it.c.et)
        it.c.f = []
        it.pos = 0
        return UNIT()
    M.drops['std::vec::IntoIter'] = drop_vec_intoiter

    @reg("<&'a std::vec::Vec<T, A> as std::iter::IntoIterator>::into_iter", "<&'a mut std::vec::Vec<T, A> as std::iter::IntoIterator>::into_iter")
    def vec_ref_into_iter(I, ext, a):
        v = deref_to_value(a[0])
        return IterObj(v, 0, len(v.f), 'ref')

    @reg('std::slice::<impl [T]>::iter', 'std::slice::<impl [T]>::iter_mut', "<&'a [T] as std::iter::IntoIterator>::into_iter",
         "<&'a mut [T] as std::iter::IntoIterator>::into_iter")
    def slice_iter(I, ext, a):
        s = a[0]
        return IterObj(s.c, s.i, s.i + s.meta, 'ref')

    @reg("<std::slice::Iter<'a, T> as std::iter::Iterator>::next", "<std::slice::IterMut<'a, T> as std::iter::Iterator>::next")
    def slice_iter_next(I, ext, a):
        it = deref_to_value(a[0])
        if it.pos >= it.end:
            return NONE()
        p = Ptr(it.c, it.pos)
        it.pos += 1
        return some(p)

    @reg('std::slice::<impl [T]>::len')
    def slice_len(I, ext, a):
        return a[0].meta

    @reg('std::slice::<impl [T]>::is_empty')
    def slice_is_empty(I, ext, a):
        return a[0].meta == 0

    @reg('std::slice::<impl [T]>::to_vec', 'std::slice::<impl [T]>::to_vec_in')
    def slice_to_vec(I, ext, a):
        s = a[0]
        et = targ(ext)
        items = []
        clone = clone_fn(I, et)
        for j in range(s.meta):
            items.append(clone(Ptr(s.c, s.i + j)))
        return VecObj(et, items)

    def clone_fn(I, tid):
        """-> python callable (ptr) -> cloned value, using the real Clone impl when the dump has it"""
        t = P.tys[tid]
        k = t['kind']
        if k in ('int', 'bool', 'char', 'float', 'ref', 'ptr', 'fnptr'):
            return lambda p: p.c.f[p.i]
        name = t.get('name', '')
        if name == 'std::sync::Arc':
            def f(p):
                r = p.c.f[p.i]
                r.inner.strong += 1
                return ArcRef(r.inner, r.meta)
            return f
        if name == 'std::string::String':
            return lambda p: StringObj(p.c.f[p.i].s)
        # look for <T as Clone>::clone instance in the dump
        want = '<%s as std::clone::Clone>::clone' % t['str']
        for iid, fn in list(P.fns.items()) + list(P.exts.items()):
            if fn['name'] == want:
                return lambda p, iid=iid: I.call_fn(iid, [p])
        raise Unsupported('no Clone instance for %s' % t['str'])
    M.clone_fn = clone_fn

    @reg('<std::vec::Vec<T, A> as std::clone::Clone>::clone')
    def vec_clone(I, ext, a):
        v = deref_to_value(a[0])
        clone = clone_fn(I, v.et)
        return VecObj(v.et, [clone(Ptr(v, j)) for j in range(len(v.f))])

    def drop_vec(I, ext, a):
        v = deref_to_value(a[0])
        if type(v) is not VecObj:
            raise Unsupported('drop of Vec holding %r' % (v,))
        drop_items(I, v)
        return UNIT()
    M.drops['std::vec::Vec'] = drop_vec

    @reg('<std::vec::Vec<T> as std::iter::FromIterator<T>>::from_iter')
    def vec_from_iter(I, ext, a):
        ts = [x['ty'] for x in ext['args'] if 'ty' in x]
        et, it_ty = ts[0], ts[1]
        it = a[0]
        out = VecObj(et)
        if type(it) is IterObj and it.mode == 'val':
            out.f = [x for x in it.c.f[it.pos:]]
            it.c.f = []
            return out
        # generic: drive Iterator::next of the iterator type from its real MIR
        nxt = find_method(I, it_ty, 'std::iter::Iterator>::next')
        cell = Cell(it)
        while True:
            r = I.call_fn(nxt, [Ptr(cell, 0)])
            if r.v == 0:
                break
            out.f.append(r.f[0])
        I.drop_value_at(cell, 0, it_ty)
        return out

    def find_method(I, self_tid, suffix):
        s = P.tys[self_tid]['str']
        want = '<%s as %s' % (s, suffix)
        for iid, fn in list(P.fns.items()) + list(P.exts.items()):
            if fn['name'] == want:
                return iid
        raise Unsupported('no instance %s in dump' % want)
    M.find_method = find_method

    # ------------------------------------------------------------------ atomics
    @reg_re(r'^std::sync::atomic::Atomic(::)?<.*>::new$')
    def atomic_new(I, ext, a):
        return AtomicObj(a[0])

    @reg_re(r'^<std::sync::atomic::Atomic<.*> as std::default::Default>::default$')
    def atomic_default(I, ext, a):
        t = P.tys[targ(ext)] if ext['args'] else None
        if 'bool' in ext['dname']:
            return AtomicObj(False)
        return AtomicObj(0)

    def at(a):
        o = deref_to_value(a[0])
        if type(o) is not AtomicObj:
            raise Unsupported('atomic op on %r' % (o,))
        return o

    @reg_re(r'^std::sync::atomic::Atomic(::)?<.*>::load$')
    def atomic_load(I, ext, a):
        return at(a).f[0]

    @reg_re(r'^std::sync::atomic::Atomic(::)?<.*>::store$')
    def atomic_store(I, ext, a):
        at(a).f[0] = a[1]
        return UNIT()

    def atomic_ty(ext):
        m = re.search(r'Atomic(?:::)?<(\w+)>', ext['dname'])
        name = m.group(1)
        if name == 'bool':
            return None
        bits = {'usize': 64, 'isize': 64}.get(name) or int(name[1:])
        signed = name[0] == 'i'
        lo, hi = (-(1 << (bits - 1)), (1 << (bits - 1)) - 1) if signed else (0, (1 << bits) - 1)
        return {'lo': lo, 'hi': hi, 'bits': bits, 'signed': signed, 'kind': 'int', 'str': name}

    @reg_re(r'^std::sync::atomic::Atomic(::)?<.*>::(fetch_add|fetch_sub|fetch_max|fetch_min|swap|fetch_and|fetch_or)$')
    def atomic_rmw(I, ext, a):
        o = at(a)
        old = o.f[0]
        op = ext['dname'].rsplit('::', 1)[1]
        t = atomic_ty(ext)
        if op == 'fetch_add':
            o.f[0] = I.int_wrap(old + a[1], t)
        elif op == 'fetch_sub':
            o.f[0] = I.int_wrap(old - a[1], t)
        elif op == 'swap':
            o.f[0] = a[1]
        elif op in ('fetch_max', 'fetch_min'):
            if is_sym(old) or is_sym(a[1]):
                gt = I.ctx.branch(old >= a[1])
            else:
                gt = old >= a[1]
            if op == 'fetch_max':
                o.f[0] = old if gt else a[1]
            else:
                o.f[0] = a[1] if gt else old
        elif op == 'fetch_and':
            o.f[0] = (old and a[1]) if t is None else (old & a[1])
        elif op == 'fetch_or':
            o.f[0] = (old or a[1]) if t is None else (old | a[1])
        return old

    @reg_re(r'^std::sync::atomic::Atomic(::)?<.*>::(compare_exchange|compare_exchange_weak|compare_and_swap)$')
    def atomic_cas(I, ext, a):
        o = at(a)
        old = o.f[0]
        exp, new = a[1], a[2]
        if is_sym(old) or is_sym(exp):
            c = old == exp
            if z3.is_bool(old) or z3.is_bool(exp) or isinstance(old, bool):
                c = (old == exp)
            same = I.ctx.branch(c)
        else:
            same = old == exp
        if same:
            o.f[0] = new
            return ok(old)
        return err(old)

    def dec_atomic(I, t, alloc, off):
        inner = t['targs'][0] if t['targs'] else None
        if inner is None:
            raise Unsupported('atomic decode')
        return AtomicObj(I.decode(inner, alloc, off))
    M.decoders['std::sync::atomic::Atomic'] = dec_atomic

    # ------------------------------------------------------------------ Mutex / RwLock
    @reg('std::sync::Mutex::<T>::new')
    def mutex_new(I, ext, a):
        return LockObj(a[0], 'mutex')

    @reg('std::sync::RwLock::<T>::new')
    def rwlock_new(I, ext, a):
        return LockObj(a[0], 'rwlock')

    def lock_result(I, lk, g):
        if lk.poisoned:
            return err(Agg([g]))
        return ok(g)

    def acquire(I, lk, mode, blocking):
        me = I.thread_id
        I.sched_point(('lock', lk, mode))
        while True:
            if mode == 'read':
                free = lk.writer is None
            else:
                free = lk.writer is None and not lk.readers
            if free:
                break
            if not blocking:
                return None
            if lk.writer == me or me in lk.readers:
                I.deadlock('thread %d re-acquires a %s it already holds' % (me, lk.kind))
            I.block_on(lk)
        if mode == 'read':
            lk.readers.append(me)
        else:
            lk.writer = me
        return Guard(lk, mode, I.panicking)

    @reg('std::sync::Mutex::<T>::lock')
    def mutex_lock(I, ext, a):
        lk = deref_to_value(a[0])
        g = acquire(I, lk, 'write', True)
        return lock_result(I, lk, g)

    @reg('std::sync::Mutex::<T>::try_lock')
    def mutex_try_lock(I, ext, a):
        lk = deref_to_value(a[0])
        g = acquire(I, lk, 'write', False)
        if g is None:
            return err(Enum(1, []))  # TryLockError::WouldBlock
        if lk.poisoned:
            return err(Enum(0, [Agg([g])]))
        return ok(g)

    @reg('std::sync::RwLock::<T>::read')
    def rw_read(I, ext, a):
        lk = deref_to_value(a[0])
        return lock_result(I, lk, acquire(I, lk, 'read', True))

    @reg('std::sync::RwLock::<T>::write')
    def rw_write(I, ext, a):
        lk = deref_to_value(a[0])
        return lock_result(I, lk, acquire(I, lk, 'write', True))

    @reg_re(r"^<std::sync::(MutexGuard|RwLockReadGuard|RwLockWriteGuard)<'.*, T> as std::ops::Deref(Mut)?>::deref(_mut)?$")
    def guard_deref(I, ext, a):
        g = deref_to_value(a[0])
        return Ptr(g.lock, 0)

    def drop_guard(I, ext, a):
        g = deref_to_value(a[0])
        if type(g) is not Guard:
            raise Unsupported('drop of guard holding %r' % (g,))
        if g.released:
            return UNIT()
        g.released = True
        lk = g.lock
        if g.mode == 'read':
            lk.readers.remove(I.thread_id)
        else:
            lk.writer = None
            if I.panicking and not g.panicking_at_lock:
                lk.poisoned = True
        I.sched_point(('unlock', lk, g.mode))
        return UNIT()
    M.drops['std::sync::MutexGuard'] = drop_guard
    M.drops['std::sync::RwLockReadGuard'] = drop_guard
    M.drops['std::sync::RwLockWriteGuard'] = drop_guard

    def drop_lock(I, ext, a):
        lk = deref_to_value(a[0])
        t = P.tys[targ(ext)]
        I.drop_value_at(lk, 0, t['targs'][0])
        return UNIT()
    M.drops['std::sync::Mutex'] = drop_lock
    M.drops['std::sync::RwLock'] = drop_lock

    @reg('std::sync::PoisonError::<T>::into_inner')
    def poison_into_inner(I, ext, a):
        return a[0].f[0]

    # ------------------------------------------------------------------ enum_map
    @reg('enum_map::enum_map_impls::<impl std::default::Default for enum_map::EnumMap<K, V>>::default')
    def enummap_default(I, ext, a):
        ts = [x['ty'] for x in ext['args'] if 'ty' in x]
        kt, vt = P.tys[ts[0]], ts[1]
        n = len(kt['variants'])
        dflt = default_fn(I, vt)
        return Agg([Agg([dflt() for _ in range(n)])])

    def default_fn(I, tid):
        t = P.tys[tid]
        k = t['kind']
        if k == 'int':
            return lambda: 0
        if k == 'bool':
            return lambda: False
        if k == 'float':
            return lambda: 0.0
        if t.get('name') == 'std::sync::atomic::Atomic':
            it = P.tys[t['targs'][0]]
            return (lambda: AtomicObj(False)) if it['kind'] == 'bool' else (lambda: AtomicObj(0))
        want = '<%s as std::default::Default>::default' % t['str']
        for iid, fn in list(P.fns.items()) + list(P.exts.items()):
            if fn['name'] == want:
                return lambda iid=iid: I.call_fn(iid, [])
        raise Unsupported('no Default instance for %s' % t['str'])

    @reg('enum_map::enum_map_impls::<impl std::ops::Index<K> for enum_map::EnumMap<K, V>>::index',
         'enum_map::enum_map_impls::<impl std::ops::IndexMut<K> for enum_map::EnumMap<K, V>>::index_mut')
    def enummap_index(I, ext, a):
        m = deref_to_value(a[0])
        return Ptr(m.f[0], a[1].v)

    @reg("enum_map::iter::<impl std::iter::IntoIterator for &'a enum_map::EnumMap<K, V>>::into_iter", 'enum_map::EnumMap::<K, V>::iter')
    def enummap_iter(I, ext, a):
        m = deref_to_value(a[0])
        return IterObj(m.f[0], 0, len(m.f[0].f), 'enum')

    @reg("<enum_map::iter::Iter<'a, K, V> as std::iter::Iterator>::next")
    def enummap_iter_next(I, ext, a):
        it = deref_to_value(a[0])
        if it.pos >= it.end:
            return NONE()
        r = some(Agg([Enum(it.pos, []), Ptr(it.c, it.pos)]))
        it.pos += 1
        return r

    @reg('enum_map::EnumMap::<K, V>::values')
    def enummap_values(I, ext, a):
        m = deref_to_value(a[0])
        return IterObj(m.f[0], 0, len(m.f[0].f), 'ref')

    @reg("<enum_map::iter::Values<'a, V> as std::iter::Iterator>::next")
    def enummap_values_next(I, ext, a):
        return slice_iter_next(I, ext, a)

    # ------------------------------------------------------------------ anyhow / errors
    @reg('anyhow::error::<impl anyhow::Error>::msg')
    def anyhow_msg(I, ext, a):
        m = a[0]
        s = m.s if type(m) in (StrRef, StringObj) else '<msg>'
        return ErrObj(s)

    @reg('anyhow::error::<impl anyhow::Error>::new', 'anyhow::error::<impl std::convert::From<E> for anyhow::Error>::from')
    def anyhow_new(I, ext, a):
        return ErrObj(repr(a[0]))

    @reg('anyhow::__private::format_err')
    def anyhow_format_err(I, ext, a):
        return ErrObj('<formatted>')

    def drop_nop(I, ext, a):
        return UNIT()
    M.drops['anyhow::Error'] = drop_nop
    M.drops['std::string::String'] = drop_nop
    M.drops['std::fmt::Arguments'] = drop_nop
    M.drops['std::thread::JoinHandle'] = drop_nop

    # ------------------------------------------------------------------ misc std
    @reg('std::thread::yield_now')
    def yield_now(I, ext, a):
        I.sched_point(('yield',))
        return UNIT()

    @reg('core::str::traits::<impl std::cmp::PartialEq for str>::eq', 'std::str::traits::<impl std::cmp::PartialEq for str>::eq')
    def str_eq(I, ext, a):
        return a[0].s == a[1].s

    @reg('std::ptr::drop_in_place')
    def drop_in_place(I, ext, a):
        tid = targ(ext)
        t = P.tys[tid]
        if t['kind'] == 'dyn':
            p = a[0]
            I.drop_value_at(p.c, p.i, tid, p.meta)
            return UNIT()
        name = t.get('name')
        f = M.drops.get(name)
        if f is None:
            raise Unsupported('no drop model for %s' % t['str'])
        return f(I, ext, a)

    @reg('std::mem::drop')
    def mem_drop(I, ext, a):
        tid = targ(ext)
        c = Cell(a[0])
        I.drop_value_at(c, 0, tid)
        return UNIT()

    @reg('std::mem::forget')
    def mem_forget(I, ext, a):
        return UNIT()

    @reg('std::mem::replace')
    def mem_replace(I, ext, a):
        p = a[0]
        old = p.c.f[p.i]
        p.c.f[p.i] = a[1]
        return old

    @reg('std::mem::swap')
    def mem_swap(I, ext, a):
        p, q = a[0], a[1]
        p.c.f[p.i], q.c.f[q.i] = q.c.f[q.i], p.c.f[p.i]
        return UNIT()

    @reg('std::mem::take')
    def mem_take(I, ext, a):
        p = a[0]
        old = p.c.f[p.i]
        p.c.f[p.i] = default_fn(I, targ(ext))()
        return old
