#!/bin/bash
# usage: dump.sh  -> regenerates /verif/.work/harness.mir.jsonl from /repo's working tree
set -e
cd /verif/harness
touch src/lib.rs
NIGHTLY=$HOME/.rustup/toolchains/nightly-x86_64-unknown-linux-gnu
LD_LIBRARY_PATH=$NIGHTLY/lib RUSTC_WORKSPACE_WRAPPER=/verif/mirdump/target/debug/mirdump \
 MIRDUMP_CRATE=harness MIRDUMP_OUT=${MIRDUMP_OUT:-/verif/.work/harness.mir.jsonl} MIRDUMP_STOP=/verif/mirsym_stop.txt \
 RUSTFLAGS="-Zalways-encode-mir" CARGO_TARGET_DIR=/verif/.work/mir-target CARGO_NET_OFFLINE=true \
 cargo +nightly check --offline --lib 2>&1 | grep -E "^(error|mirdump)" -A8 || true
