"""Driver shared by all property checks: dump, explore, self-test, replay, evidence."""
import fcntl
import hashlib
import json
import multiprocessing as mp
import os
import random
import re
import subprocess
import sys
import time

ROOT = os.path.dirname(os.path.abspath(__file__))
WORK = os.path.join(ROOT, '.work')
DUMP = os.path.join(WORK, 'harness.mir.jsonl')
HARNESS = os.path.join(ROOT, 'harness')
NIGHTLY = os.path.expanduser('~/.rustup/toolchains/nightly-x86_64-unknown-linux-gnu')
ENV_OFF = {'CARGO_NET_OFFLINE': 'true'}


def log(*a):
    print(*a, file=sys.stderr, flush=True)


def sh(cmd, env=None, cwd=None, timeout=None):
    e = dict(os.environ)
    e.update(ENV_OFF)
    if env:
        e.update(env)
    return subprocess.run(cmd, shell=isinstance(cmd, str), cwd=cwd, env=e, stdout=subprocess.PIPE, stderr=subprocess.STDOUT,
                          text=True, timeout=timeout)


def tree_hash():
    h = hashlib.sha256()
    roots = ['/repo/sentinel-core', '/repo/sentinel-macros', '/repo/middleware/tower', '/repo/Cargo.toml', '/repo/Cargo.lock',
             os.path.join(HARNESS, 'src'), os.path.join(HARNESS, 'Cargo.toml'), os.path.join(ROOT, 'mirsym_stop.txt'),
             os.path.join(ROOT, 'mirdump', 'src')]
    files = []
    for r in roots:
        if os.path.isfile(r):
            files.append(r)
        for d, dn, fn in os.walk(r):
            if '/target' in d or '/.git' in d:
                continue
            for f in fn:
                if f.endswith(('.rs', '.toml', '.lock', '.txt')):
                    files.append(os.path.join(d, f))
    for f in sorted(files):
        h.update(f.encode())
        with open(f, 'rb') as fh:
            h.update(fh.read())
    return h.hexdigest()


class Lock:
    def __enter__(self):
        os.makedirs(WORK, exist_ok=True)
        self.f = open(os.path.join(WORK, 'lock'), 'w')
        fcntl.flock(self.f, fcntl.LOCK_EX)

    def __exit__(self, *a):
        fcntl.flock(self.f, fcntl.LOCK_UN)
        self.f.close()


def build_mirdump():
    r = sh('cargo +nightly build --offline', cwd=os.path.join(ROOT, 'mirdump'))
    if r.returncode != 0:
        log(r.stdout[-3000:])
        raise SystemExit('mirdump build failed')


def ensure_built(need_release=False):
    """(re)generate the MIR dump and the native replay binary from /repo's working tree"""
    with Lock():
        h = tree_hash()
        stamp = os.path.join(WORK, 'stamp')
        old = open(stamp).read().split() if os.path.exists(stamp) else []
        t0 = time.time()
        if not os.path.exists(os.path.join(ROOT, 'mirdump', 'target', 'debug', 'mirdump')):
            build_mirdump()
        if not (old and old[0] == h and os.path.exists(DUMP) and os.path.exists(os.path.join(HARNESS, 'target/debug/replay'))):
            os.utime(os.path.join(HARNESS, 'src/lib.rs'))
            tmp = DUMP + '.tmp'
            if os.path.exists(tmp):
                os.remove(tmp)
            env = {'LD_LIBRARY_PATH': NIGHTLY + '/lib', 'RUSTC_WORKSPACE_WRAPPER': os.path.join(ROOT, 'mirdump/target/debug/mirdump'),
                   'MIRDUMP_CRATE': 'harness', 'MIRDUMP_OUT': tmp, 'MIRDUMP_STOP': os.path.join(ROOT, 'mirsym_stop.txt'),
                   'RUSTFLAGS': '-Zalways-encode-mir', 'CARGO_TARGET_DIR': os.path.join(WORK, 'mir-target')}
            r = sh('cargo +nightly check --offline --lib', env=env, cwd=HARNESS)
            if r.returncode != 0 or not os.path.exists(tmp):
                log(r.stdout[-4000:])
                raise SystemExit(2)
            os.replace(tmp, DUMP)
            r = sh('cargo build --offline --bin replay', cwd=HARNESS)
            if r.returncode != 0:
                log(r.stdout[-4000:])
                raise SystemExit(2)
            old = [h, '0']
            with open(stamp, 'w') as f:
                f.write(h + ' 0\n')
            log('[build] dump + debug replay rebuilt in %.1fs' % (time.time() - t0))
        if need_release and not (len(old) > 1 and old[1] == '1' and os.path.exists(os.path.join(HARNESS, 'target/release/replay'))):
            r = sh('cargo build --offline --release --bin replay', cwd=HARNESS)
            if r.returncode != 0:
                log(r.stdout[-4000:])
                raise SystemExit(2)
            with open(stamp, 'w') as f:
                f.write(h + ' 1\n')
        return h


# ----------------------------------------------------------------------------- native runs
def native(scenario, shape, values=None, seed=None, profile='debug', timeout=60, delay_seed=None):
    cmd = [os.path.join(HARNESS, 'target', profile, 'replay'), scenario, ','.join(str(x) for x in shape),
           ','.join(str(v) for v in values) if values else '-']
    if seed is not None:
        cmd += ['--random', str(seed)]
    env = dict(os.environ)
    if delay_seed is not None:
        env['VERIF_DELAY_SEED'] = str(delay_seed)
    try:
        r = subprocess.run(cmd, stdout=subprocess.PIPE, stderr=subprocess.PIPE, text=True, timeout=timeout, env=env)
    except subprocess.TimeoutExpired:
        return {'code': 'timeout', 'out': '', 'err': ''}
    out = {'code': r.returncode, 'out': r.stdout, 'err': r.stderr[-2000:]}
    for line in r.stdout.splitlines():
        for key in ('DRAWN', 'OBS', 'COVERS'):
            if line.startswith(key + ' '):
                try:
                    out[key.lower()] = json.loads(line[len(key) + 1:])
                except Exception:
                    pass
        if line.startswith('CHECK-FAILED '):
            out['failed'] = line.split(' ', 1)[1]
    m = re.search(r"panicked at ([^\n]*)\n([^\n]*)", r.stderr)
    if m:
        out['panic'] = m.group(1) + ' ' + m.group(2)
    return out


def native_with_schedule(scenario, shape, values, preemptions, hold_s=0.4, timeout=20):
    """run the debug replay binary under gdb (non-stop mode) and hold each preempted thread at the source line of
    its preemption for `hold_s` seconds while the other threads run on. preemptions: [(thread, file:line, nth, to)]"""
    exe = os.path.join(HARNESS, 'target', 'debug', 'replay')
    script = os.path.join(ROOT, 'gdb_schedule.py')
    env = dict(os.environ)
    env['VERIF_GDB_PREEMPT'] = json.dumps([[t, pos, nth] for t, pos, nth, _ in preemptions])
    env['VERIF_GDB_HOLD'] = str(hold_s)
    cmd = ['gdb', '-q', '-batch', '-nx', '-x', script, '--args', exe, scenario, ','.join(str(x) for x in shape),
           ','.join(str(x) for x in values) if values else '-']
    try:
        r = subprocess.run(cmd, stdout=subprocess.PIPE, stderr=subprocess.PIPE, text=True, timeout=timeout, env=env)
    except subprocess.TimeoutExpired:
        subprocess.run(['pkill', '-9', '-f', exe + ' ' + scenario], stdout=subprocess.DEVNULL, stderr=subprocess.DEVNULL)
        return {'code': 'timeout', 'out': '', 'err': ''}
    out = {'code': None, 'out': r.stdout, 'err': r.stderr[-2000:]}
    for line in r.stdout.splitlines():
        if line.startswith('CHECK-FAILED '):
            out['failed'] = line.split(' ', 1)[1]
        m = re.search(r'exited with code (\d+)', line)
        if m:
            out['code'] = int(m.group(1), 8) if m.group(1).startswith('0') and len(m.group(1)) > 1 else int(m.group(1))
        if 'exited normally' in line:
            out['code'] = 0
        if line.startswith('GDB-HELD '):
            out.setdefault('held', []).append(line[9:])
    m = re.search(r"panicked at ([^\n]*)\n([^\n]*)", r.stdout + r.stderr)
    if m:
        out['panic'] = m.group(1) + ' ' + m.group(2)
    return out


# ----------------------------------------------------------------------------- symbolic workers
_PROG = None
_MODELS = None
CAPS = {}


def _load():
    global _PROG, _MODELS
    if _PROG is None:
        sys.path.insert(0, ROOT)
        from mirsym.prog import Program
        from mirsym.models import Models
        _PROG = Program(DUMP)
        _MODELS = Models(_PROG)
    return _PROG, _MODELS


def explore_chunk(task):
    """explore up to `max_paths` paths / `max_seconds` of the subtrees rooted at the given prefixes;
    returns a partial result and the unexplored prefixes"""
    jid, scenario, shape, prefixes, max_paths, max_seconds = task
    prog, models = _load()
    from mirsym.explore import explore
    import mirsym.ctx as _c
    _c.CONCRETIZE_CAP = CAPS.get(scenario, 300)
    try:
        r = explore(prog, 'harness::' + scenario_path(scenario), shape, max_paths=max_paths, max_seconds=max_seconds, models=models,
                    initial_work=prefixes, return_rest=True)
    except Exception as e:  # a bug in the machinery: inconclusive, never a verdict
        import traceback
        return {'jid': jid, 'unsupported': ['internal error: %s\n%s' % (e, traceback.format_exc()[-1500:])], 'rest': [],
                'paths': 0, 'completed': 0, 'infeasible': 0, 'nontrivial': 0, 'steps': 0, 'queries': 0, 'solver_s': 0, 'wall': 0,
                'cex': [], 'panics': [], 'covers': [], 'checks': {}, 'samples': [], 'called': [],
                'max_depth': 0, 'max_query_s': 0, 'smt': [], 'fork_sites': {}}
    return {'jid': jid, 'paths': r.paths, 'completed': r.completed, 'infeasible': r.infeasible,
            'nontrivial': r.nontrivial, 'steps': r.steps, 'queries': r.stats.queries, 'solver_s': r.stats.solver_s,
            'max_query_s': r.stats.max_query_s, 'wall': r.wall, 'cex': r.cex[:20], 'panics': r.panics[:20], 'unsupported': r.unsupported,
            'covers': sorted(r.covers), 'checks': r.checks, 'samples': r.samples[:1],
            'called': sorted(r.called), 'max_depth': r.max_depth, 'smt': r.stats.smt_samples[:1], 'rest': r.rest,
            'fork_sites': r.fork_sites}


def explore_all(pool, jobs, deadline, nproc):
    """jobs: [(scenario, shape, limits)] -> merged result per job; work is split by decision prefixes so that
    all cores stay busy even on one big shape"""
    res = []
    for sc, shp, lim in jobs:
        res.append({'scenario': sc, 'shape': shp, 'paths': 0, 'completed': 0, 'infeasible': 0, 'nontrivial': 0, 'steps': 0, 'queries': 0,
                    'solver_s': 0.0, 'max_query_s': 0.0, 'wall': 0.0, 'cex': [], 'panics': [], 'unsupported': [], 'covers': set(),
                    'checks': {}, 'samples': [], 'budget_exhausted': False, 'called': set(), 'max_depth': 0, 'smt': [], 'fork_sites': {}})
    pending = {}
    queue = [(jid, [[]]) for jid in range(len(jobs))]
    dead = set()

    def submit():
        while queue and len(pending) < nproc * 2:
            jid, prefixes = queue.pop(0)
            if jid in dead:
                continue
            sc, shp, lim = jobs[jid]
            # small first chunk so that the tree fans out quickly, larger ones afterwards
            first = res[jid]['paths'] == 0 and prefixes == [[]]
            task = (jid, sc, shp, prefixes, 6 if first else 60, 5 if first else 20)
            pending[pool.apply_async(explore_chunk, (task,))] = jid

    submit()
    while pending:
        done = [f for f in pending if f.ready()]
        if not done:
            time.sleep(0.02)
            if time.time() > deadline:
                for jid in set(pending.values()) | {j for j, _ in queue}:
                    res[jid]['budget_exhausted'] = True
                break
            continue
        if os.environ.get('VERIF_PROGRESS') and time.time() - _last_progress[0] > 60:
            _last_progress[0] = time.time()
            tp = sum(r0['paths'] for r0 in res)
            active = sorted(set(pending.values()) | {j for j, _ in queue})
            log('[progress] paths=%d shapes-active=%d/%d %s' % (tp, len(active), len(jobs), [tuple(jobs[j][1]) for j in active[:6]]))
        for f in done:
            jid = pending.pop(f)
            r = f.get()
            R = res[jid]
            for k in ('paths', 'completed', 'infeasible', 'nontrivial', 'steps', 'queries', 'solver_s', 'wall'):
                R[k] += r[k]
            R['max_query_s'] = max(R['max_query_s'], r['max_query_s'])
            R['max_depth'] = max(R['max_depth'], r['max_depth'])
            R['cex'].extend(r['cex'])
            R['panics'].extend(r['panics'])
            R['unsupported'].extend(r['unsupported'])
            R['covers'].update(r['covers'])
            R['called'].update(r['called'])
            for t, n in r['checks'].items():
                R['checks'][t] = R['checks'].get(t, 0) + n
            for t, n in r['fork_sites'].items():
                R['fork_sites'][t] = R['fork_sites'].get(t, 0) + n
            if len(R['samples']) < 2:
                R['samples'].extend(r['samples'])
            if len(R['smt']) < 2:
                R['smt'].extend(r['smt'])
            if r['unsupported']:
                dead.add(jid)
                continue
            rest = r['rest']
            lim = jobs[jid][2]
            if R['paths'] > lim.get('max_paths', 10 ** 9):
                R['budget_exhausted'] = True
                dead.add(jid)
                continue
            # split the remaining prefixes into chunks
            if rest:
                n = max(1, min(len(rest), nproc))
                size = (len(rest) + n - 1) // n
                for i in range(0, len(rest), size):
                    queue.append((jid, rest[i:i + size]))
        submit()
    for R in res:
        R['covers'] = sorted(R['covers'])
        R['called'] = sorted(R['called'])
        if len(R['cex']) > 50:
            R['cex'] = R['cex'][:50]
    return res


def _stdx_status():
    """result of the last run of stdx_selftest.py (differential test of the std models), if any"""
    try:
        with open(os.path.join(ROOT, '.work', 'stdx.json')) as f:
            return json.load(f)
    except (OSError, ValueError):
        return None


_last_progress = [0.0]


def scenario_path(s):
    # "c02_window" -> "c02::c02_window"
    return s.split('_')[0] + '::' + s


def concrete_run(job):
    scenario, shape, values = job
    prog, models = _load()
    from mirsym.explore import run_one
    try:
        outcome, ctx, I = run_one(prog, models, 'harness::' + scenario_path(scenario), shape, concrete=values)
    except Exception as e:
        import traceback
        return {'outcome': ['unsupported', 'internal error: %s %s' % (e, traceback.format_exc()[-800:])], 'obs': [], 'covers': []}
    obs = [[t, int(v) if not isinstance(v, bool) else int(v)] for t, v in ctx.observations]
    kind, data = outcome
    if kind == 'cex':
        data = data[0]
    elif kind == 'panic':
        data = data[0]
    return {'outcome': [kind, data], 'obs': obs, 'covers': list(ctx.covers)}


def cvc5_recheck(samples):
    """re-decide exported queries with cvc5; returns (n, disagreements)"""
    n = dis = 0
    for smt, verdict in samples:
        path = os.path.join(WORK, 'q_%d_%d.smt2' % (os.getpid(), n))
        with open(path, 'w') as f:
            f.write('(set-logic ALL)\n' + smt)
        try:
            r = subprocess.run(['cvc5', '--lang', 'smt2', '--tlimit=20000', path], stdout=subprocess.PIPE, stderr=subprocess.PIPE, text=True, timeout=30)
            ans = r.stdout.strip().splitlines()[0] if r.stdout.strip() else 'error'
        except subprocess.TimeoutExpired:
            ans = 'timeout'
        os.remove(path)
        if ans in ('sat', 'unsat'):
            n += 1
            if ans != verdict:
                dis += 1
    return n, dis


# ----------------------------------------------------------------------------- the check
def load_known():
    p = os.path.join(ROOT, 'known_findings.json')
    if not os.path.exists(p):
        return []
    return json.load(open(p)).get('findings', [])


def match_known(known, prop, scenario, shape, what):
    for k in known:
        if k.get('status', 'open') != 'open':
            continue
        if k['property'] != prop:
            continue
        if 'scenario' in k and k['scenario'] != scenario:
            continue
        if 'tag_re' in k and not re.search(k['tag_re'], what):
            continue
        if 'shape_where' in k:
            okk = True
            for idx, vals in k['shape_where'].items():
                if shape[int(idx)] not in vals:
                    okk = False
            if not okk:
                continue
        return k
    return None


def run_check(prop, spec, tier, seed):
    """spec: {'scenarios': [{'name', 'shapes': {'quick': [...], 'thorough': [...]}, 'witnesses': [...], 'selftest': n,
                             'limits': {...}}], 'level': ..., 'assumptions': [...], 'bounds': str}"""
    t0 = time.time()
    h = ensure_built()
    known = load_known()
    rnd = random.Random(seed)
    jobs = []
    for sc in spec['scenarios']:
        if 'concretize_cap' in sc:
            CAPS[sc['name']] = sc['concretize_cap']
        shapes = sc['shapes'][tier] if tier in sc['shapes'] else sc['shapes']['quick']
        shapes = list(shapes)
        rnd.shuffle(shapes)
        for shp in shapes:
            jobs.append((sc['name'], list(shp), sc.get('limits', {}).get(tier, sc.get('limits', {}).get('quick', {}))))
    nproc = int(os.environ.get('VERIF_JOBS', '16'))
    ctxm = mp.get_context('fork')
    budget = spec.get('budget_s', {}).get(tier, 3000 if tier == 'quick' else 14400)   # a safety net, far above the normal run time
    with ctxm.Pool(nproc) as pool:
        results = explore_all(pool, jobs, time.time() + budget, nproc)
        # differential self-test: native random runs vs concrete interpretation
        st_jobs = []
        st_native = []
        for sc in spec['scenarios']:
            n = sc.get('selftest', {}).get(tier, 6) if isinstance(sc.get('selftest'), dict) else sc.get('selftest', 6)
            shapes = sc['shapes'][tier] if tier in sc['shapes'] else sc['shapes']['quick']
            for j in range(n):
                shp = list(shapes[rnd.randrange(len(shapes))])
                nat = native(sc['name'], shp, seed=rnd.randrange(1, 1 << 30))
                if 'drawn' not in nat:
                    st_native.append((sc['name'], shp, nat, None))
                    continue
                vals = [v for _, v in nat['drawn']]
                st_native.append((sc['name'], shp, nat, vals))
                st_jobs.append((sc['name'], shp, vals))
        st_results = pool.map(concrete_run, st_jobs, chunksize=1) if st_jobs else []

    inconclusive = []
    violations = []
    known_hits = []
    # ---- self-test comparison
    st_ok = 0
    st_bad = []
    k = 0
    for name, shp, nat, vals in st_native:
        if vals is None:
            st_bad.append('%s %s: native run gave no DRAWN line (code %s) %s' % (name, shp, nat['code'], nat.get('err', '')[-300:]))
            continue
        sr = st_results[k]
        k += 1
        kind, data = sr['outcome']
        nat_kind = {0: 'ok', 3: 'cex', 4: 'end', 101: 'panic'}.get(nat['code'], 'other')
        if kind == 'unsupported':
            st_bad.append('%s %s %s: %s' % (name, shp, vals, data))
            continue
        same = (kind == nat_kind) and (kind != 'ok' or sr['obs'] == [[t, v] for t, v in nat.get('obs', [])])
        if kind == 'cex' and nat_kind == 'cex':
            same = data == nat.get('failed')
        if same:
            st_ok += 1
        else:
            st_bad.append('%s %s %s: native %s %s / mirsym %s %s' % (name, shp, vals, nat_kind, nat.get('obs') or nat.get('failed') or nat.get('panic'), kind, sr['obs'] or data))
    if st_bad:
        inconclusive.append('differential self-test: %d divergences, first: %s' % (len(st_bad), st_bad[0]))

    # ---- symbolic results
    tot = {'paths': 0, 'completed': 0, 'infeasible': 0, 'nontrivial': 0, 'steps': 0, 'queries': 0, 'solver_s': 0.0}
    covers = {}
    called = set()
    samples = []
    smt = []
    max_depth = 0
    max_q = 0.0
    replays = []
    need_replay = []
    for r in results:
        for kk in tot:
            tot[kk] += r[kk]
        covers.setdefault(r['scenario'], set()).update(r['covers'])
        called.update(r['called'])
        max_depth = max(max_depth, r['max_depth'])
        max_q = max(max_q, r.get('max_query_s', 0))
        smt.extend(r.get('smt', []))
        for s in r['samples'][:1]:
            if len(samples) < 4:
                samples.append({'scenario': r['scenario'], 'shape': r['shape'], 'decisions': s['decisions'], 'forks': s['forks'],
                                'model_inputs': s['model'], 'checks_reached': s['checks'][:6]})
        if r['unsupported']:
            inconclusive.append('%s %s: %s' % (r['scenario'], r['shape'], r['unsupported'][0]))
        if r['budget_exhausted']:
            inconclusive.append('%s %s: budget exhausted after %d paths' % (r['scenario'], r['shape'], r['paths']))
        seen_tags = set()
        seen_tags = {}
        for tag, vals, pre in r['cex']:
            if tag in seen_tags:
                # keep a few different schedules of the same failing check for the native replay
                if pre and len(seen_tags[tag][4]) < 6 and pre not in seen_tags[tag][4]:
                    seen_tags[tag][4].append(pre)
                continue
            seen_tags[tag] = (r['scenario'], r['shape'], 'check:' + tag, vals, [pre] if pre else [])
            need_replay.append(seen_tags[tag])
        seen_p = {}
        for msg, vals, pre in r['panics']:
            key = msg[:60]
            if vals is None:
                continue
            if key in seen_p:
                if pre and len(seen_p[key][4]) < 6 and pre not in seen_p[key][4]:
                    seen_p[key][4].append(pre)
                continue
            seen_p[key] = (r['scenario'], r['shape'], 'panic:' + msg, vals, [pre] if pre else [])
            need_replay.append(seen_p[key])
    for sc in spec['scenarios']:
        missing = [w for w in sc.get('witnesses', []) if w not in covers.get(sc['name'], set())]
        if missing:
            inconclusive.append('%s: vacuity witnesses never reached: %s' % (sc['name'], missing))

    # ---- replay candidates natively (debug, then release)
    threaded = {sc['name'] for sc in spec['scenarios'] if sc.get('threads')}
    stress_runs = 1600      # native stress replays per schedule-dependent counterexample (16 at a time, at most 60 s)
    if need_replay:
        ensure_built(need_release=True)
    os.makedirs(os.path.join(ROOT, 'evidence', 'replays'), exist_ok=True)
    for f in os.listdir(os.path.join(ROOT, 'evidence', 'replays')):
        if f.startswith(prop + '-'):
            os.remove(os.path.join(ROOT, 'evidence', 'replays', f))
    nrep = 0
    for scn, shp, what, vals, schedules in need_replay:
        v = [x for _, x in vals]
        def confirms(n):
            if what.startswith('check:'):
                if scn in threaded:
                    # which check of the scenario fails first depends on the schedule: any failing check of this
                    # property in a native run of the same scenario and shape confirms the violation
                    return n['code'] == 3 and bool(n.get('failed'))
                return n['code'] == 3 and n.get('failed') == what[6:]
            if what.startswith('panic:DEADLOCK'):
                return n['code'] == 'timeout'
            return n['code'] == 101 or n['code'] == 'timeout'
        tmo = 8 if scn in threaded else 60
        nd = native(scn, shp, v, profile='debug', timeout=tmo)
        nr = native(scn, shp, v, profile='release', timeout=tmo)
        sched_used = None
        if scn in threaded and not (confirms(nd) or confirms(nr)):
            # schedule-dependent, step 1: impose the schedule found symbolically on the native debug binary
            # (gdb in non-stop mode holds the preempted thread at the source line of the preemption while the others run)
            for pre in schedules:
                n = native_with_schedule(scn, shp, v, pre)
                if confirms(n):
                    nd = n
                    sched_used = pre
                    break
        if scn in threaded and not (confirms(nd) or confirms(nr)):
            # step 2: stress replay with delay injection at the library's sync points
            # (random delays there and random start offsets of the racing threads), 16 replays at a time
            from concurrent.futures import ThreadPoolExecutor
            t_st = time.time()
            def one(attempt):
                prof = 'debug' if attempt % 2 else 'release'
                return prof, native(scn, shp, v, profile=prof, delay_seed=attempt * 7919, timeout=5)
            with ThreadPoolExecutor(max_workers=16) as ex:
                attempt = 1
                found = False
                while attempt <= stress_runs and not found and time.time() - t_st < 60:
                    for prof, n in ex.map(one, range(attempt, attempt + 16)):
                        if confirms(n):
                            found = True
                            if prof == 'debug':
                                nd = n
                            else:
                                nr = n
                    attempt += 16
        cd, cr = confirms(nd), confirms(nr)
        rec = {'property': prop, 'scenario': scn, 'shape': shp, 'what': what, 'values': vals, 'schedule_imposed_with_gdb': sched_used, 'native_debug': {'code': nd['code'], 'failed': nd.get('failed'), 'panic': nd.get('panic')},
               'native_release': {'code': nr['code'], 'failed': nr.get('failed'), 'panic': nr.get('panic')},
               'replay_cmd': '%s %s %s %s' % (os.path.join(HARNESS, 'target/release/replay'), scn, ','.join(map(str, shp)), ','.join(map(str, v)))}
        if not (cd or cr):
            inconclusive.append('UNCONFIRMED counterexample %s %s %s values=%s (native debug code %s, release code %s)' % (scn, shp, what, v, nd['code'], nr['code']))
            replays.append(dict(rec, confirmed=False))
            continue
        kf = match_known(known, prop, scn, shp, what)
        path = os.path.join(ROOT, 'evidence', 'replays', '%s-%d.json' % (prop, nrep))
        nrep += 1
        rec['confirmed'] = True
        rec['profiles'] = [p for p, c in (('debug', cd), ('release', cr)) if c]
        with open(path, 'w') as f:
            json.dump(rec, f, indent=1)
        if kf is not None:
            known_hits.append((kf, rec))
        else:
            violations.append((path, rec))
        replays.append(rec)

    # ---- cvc5 cross-check on sampled queries
    ncv, dis = cvc5_recheck(smt[:12]) if smt else (0, 0)
    if dis:
        inconclusive.append('cvc5 disagrees with z3 on %d of %d sampled queries' % (dis, ncv))

    prog, _ = _load()
    fn_names = sorted({prog.fn_name(i) for i in called if i in prog.fns and prog.fns[i]['krate'] in ('sentinel_core', 'sentinel_tower', 'harness')})
    ext_names = sorted({prog.exts[i]['dname'] for i in called if i in prog.exts})
    wall = time.time() - t0
    ev = {
        'property_id': prop, 'tier': tier, 'seed': seed, 'level': spec.get('level', 'model_checking'),
        'coverage': {
            'evaluations': tot['paths'], 'distinct_nontrivial': tot['nontrivial'],
            'rule': 'one evaluation = one complete symbolic path of a scenario shape through the real MIR (a path condition decided feasible by z3); '
                    'non-trivial = the path took at least one solver-forked decision and reached at least one vrt::check; paths are distinct by construction (different decision prefixes)',
            'states': tot['completed'], 'transitions': tot['queries'], 'traces_validated_against_impl': st_ok,
            'samples': samples or [{'note': 'no completed path'}],
            'explanation': 'bounded symbolic execution of the monomorphised MIR of /repo (dumped on this run, tree hash %s) with z3 deciding every branch and every check; '
                           'states = completed symbolic paths, transitions = solver queries, traces_validated_against_impl = concrete random runs on which the native binary and the interpreter agreed' % h[:16],
            'shapes': len(results), 'paths_infeasible_or_assume_false': tot['infeasible'], 'mir_steps': tot['steps'],
            'solver_queries': tot['queries'], 'solver_seconds': round(tot['solver_s'], 3), 'max_query_seconds': round(max_q, 3), 'max_decision_depth': max_depth,
            'functions_encoded_from_mir': fn_names, 'n_functions_encoded': len(fn_names), 'modelled_externals': ext_names,
            'bounds': spec.get('bounds', ''), 'witnesses_reached': {k2: sorted(v2) for k2, v2 in covers.items()},
            'selftest_runs': len(st_native), 'selftest_agree': st_ok, 'selftest_divergences': st_bad[:5],
            'std_model_exerciser': _stdx_status(),
            'cvc5_rechecked': ncv, 'cvc5_disagreements': dis,
            'counterexamples': replays[:10], 'inconclusive': inconclusive[:10],
            'known_findings_hit': [kf['id'] for kf, _ in known_hits],
            'exhaustive': not inconclusive,
        },
        'assumptions': spec.get('assumptions', []),
        'wall_s': round(wall, 2), 'violations': len(violations),
    }
    os.makedirs(os.path.join(ROOT, 'evidence'), exist_ok=True)
    with open(os.path.join(ROOT, 'evidence', prop + '.json'), 'w') as f:
        json.dump(ev, f, indent=1, default=str)
    printed = set()
    for kf, rec in known_hits:
        if kf['id'] not in printed:
            printed.add(kf['id'])
            print('KNOWN-FINDING: property=%s %s' % (prop, kf['what']))
    shown = set()
    for path, rec in violations:
        key = (rec['scenario'], rec['what'][:80])
        if key in shown:
            continue
        shown.add(key)
        print('VIOLATION property=%s replay=%s' % (prop, path))
        log('  %s %s %s values=%s' % (rec['scenario'], rec['shape'], rec['what'], [x for _, x in rec['values']]))
    log('[%s %s] shapes=%d paths=%d completed=%d nontrivial=%d queries=%d solver=%.1fs selftest=%d/%d wall=%.1fs' % (
        prop, tier, len(results), tot['paths'], tot['completed'], tot['nontrivial'], tot['queries'], tot['solver_s'], st_ok, len(st_native), wall))
    if violations:
        return 1
    if inconclusive:
        for m in inconclusive[:8]:
            print('INCONCLUSIVE property=%s %s' % (prop, m))
        return 2
    return 0
