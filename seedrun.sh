#!/bin/bash
# usage: seedrun.sh <seed-id> <property> [tier]  -- applies a stored seeded change to /repo, runs the property's check, undoes it
sid=$1; prop=$2; tier=${3:-quick}
cd /repo || exit 1
test -z "$(git status --porcelain)" || { echo "/repo not clean"; exit 1; }
git apply /verif/seeded/$sid/patch.diff || { echo "patch does not apply"; exit 1; }
cd /verif
s=$(date +%s)
out=$(./check $prop --tier $tier 2>/dev/null); rc=$?
e=$(date +%s)
git -C /repo checkout -- .
echo "$sid check=$prop tier=$tier exit=$rc $((e-s))s"
echo "$out" | grep "VIOLATION\|INCONCLUSIVE\|KNOWN-FINDING" | head -4 | cut -c1-260
