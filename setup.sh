#!/bin/bash
# Builds the framework offline from files on disk: mirdump (nightly, rustc_public), MIR dump of the
# harness against /repo's working tree, native replay binaries (debug + release).
set -e
cd /verif
export CARGO_NET_OFFLINE=true
python3-vt -c "import z3; print('z3', z3.get_version_string())"
(cd mirdump && cargo +nightly build --offline 2>&1 | tail -2)
./check build
echo setup done
