#!/bin/bash
# Builds the framework offline from files on disk: mirdump (nightly, rustc_public), MIR dump of the
# harness against /repo's working tree, native replay binaries (debug + release).
set -e
cd /verif
export CARGO_NET_OFFLINE=true
python3-vt -c "import z3; print('z3', z3.get_version_string())"
(cd mirdump && cargo +nightly build --offline 2>&1 | tail -2)
./check build
# differential test of the std models (native vs interpreter on the API exerciser); reported, not fatal for setup
./stdx_selftest.py 0,1,2,3,4,5,6,7,8 2 || echo "WARNING: std model exerciser disagrees (see above)"
echo setup done
