import json,sys,glob
for f in sorted(glob.glob('/verif/evidence/C*.json')):
    e=json.load(open(f)); c=e['coverage']
    print(e['property_id'], e['tier'], 'shapes',c['shapes'],'paths',c['evaluations'],'nontriv',c['distinct_nontrivial'],'queries',c['solver_queries'],'solver_s',c['solver_seconds'],'wall',e['wall_s'],'viol',e['violations'],'selftest %d/%d'%(c['selftest_agree'],c['selftest_runs']),'inconcl',c['inconclusive'][:2],'known',c['known_findings_hit'])
