"""Per-property scenario specifications (shapes = structural bounds, all concrete)."""

def c02_shapes(tier):
    # (N ring buckets, ring interval ms, read buckets, read interval ms, k writes)
    geos = [(1, 1000), (2, 1000), (4, 2000), (2, 2), (3, 21)]
    if tier == 'thorough':
        geos += [(1, 1), (5, 1000), (3, 300), (20, 10000), (4, 4000), (5, 35)]
    out = []
    for n, ring in geos:
        l = ring // n
        k = 3 if (tier == 'quick' or n > 2) else 4
        for rn in range(1, n + 1):
            if n % rn == 0 or True:
                r_ms = rn * l
                if ring % r_ms == 0:
                    out.append((n, ring, rn, r_ms, k))
    return out

def c01_shapes(tier):
    # (nrules, class1, class2, class3, k)
    quick = [(1, 0, 0, 0, 3), (1, 3, 0, 0, 2), (1, 6, 0, 0, 3), (2, 0, 7, 0, 2), (1, 5, 0, 0, 2), (2, 7, 7, 0, 2)]
    if tier == 'quick':
        return quick
    out = list(quick)
    out += [(1, 1, 0, 0, 3), (1, 2, 0, 0, 2), (1, 4, 0, 0, 2), (2, 0, 1, 0, 2)]
    return out

def c03_shapes(tier):
    # (strategy, breakers, buckets, depth, retry class, scripted, short gaps, full chain)
    quick = [(st, 1, 1, 5, 0, 0, 0, 0) for st in (0, 1, 2)]
    quick += [(1, 2, 1, 4, 0, 0, 0, 0), (0, 1, 2, 4, 1, 0, 0, 0), (2, 1, 2, 6, 0, 2, 1, 0), (2, 1, 1, 3, 0, 0, 0, 1)]
    if tier == 'quick':
        return quick
    out = list(quick)
    for st in (0, 1, 2):
        out.append((st, 1, 2, 5, 0, 0, 0, 0))
    out += [(0, 1, 2, 6, 0, 2, 1, 0), (1, 1, 2, 6, 0, 2, 1, 0), (0, 1, 1, 4, 0, 0, 0, 1)]
    return out

def c11_shapes(tier):
    # (kind, load-for-resource, steps before, steps after, finally changed, threshold-1, order deviations, full chain)
    kinds = (0, 1, 2, 4, 5, 6, 7)
    out = []
    if tier == 'quick':
        for k in kinds:
            out.append((k, 1, 1, 1, 1, 0, 1, 0))
            out.append((k, 0, 1, 1, 1, 0, 1, 0))
        out += [(0, 1, 2, 1, 0, 1, 1, 0), (4, 1, 2, 1, 0, 1, 1, 0), (7, 1, 2, 1, 0, 0, 1, 0), (1, 1, 1, 1, 0, 0, 1, 1), (3, 1, 2, 2, 0, 0, 1, 0),
                (2, 1, 1, 1, 2, 0, 1, 0), (2, 0, 1, 1, 2, 0, 1, 0), (5, 1, 1, 1, 2, 0, 1, 0)]
        return out
    # thorough: the quick shapes, longer histories for every kind, two deviating iterations for three kinds
    out = c11_shapes('quick')
    for k in kinds:
        out.append((k, 1, 2, 2, 1, 0, 1, 0))
        out.append((k, 0, 2, 1, 0, 0, 1, 0))
    for k in (0, 2, 7):
        out.append((k, 1, 1, 1, 1, 0, 2, 0))
    out += [(0, 1, 3, 2, 0, 1, 1, 0), (7, 1, 3, 2, 1, 0, 1, 0), (3, 0, 2, 2, 0, 0, 1, 0), (2, 1, 2, 1, 2, 0, 1, 0), (5, 0, 1, 1, 2, 0, 2, 0)]
    return out

def c05h_shapes(tier):
    # (param mode, values, override, ops, -,-,-, full chain)
    if tier == 'quick':
        return [(0, 2, 1, 4), (1, 2, 0, 3), (2, 2, 1, 3), (3, 1, 0, 3), (4, 1, 0, 2), (0, 1, 0, 3, 0, 0, 0, 1)]
    out = []
    for mode in (0, 1, 2):
        for ov in (0, 1):
            out.append((mode, 3, ov, 6))
    out += [(3, 2, 1, 4), (4, 2, 0, 4), (0, 2, 1, 4, 0, 0, 0, 1)]
    return out

def c06_shapes(tier):
    # (q, b, d, override, k, values, -, full chain)
    if tier == 'quick':
        return [(2, 1, 1, -1, 4, 2), (3, 0, 2, 1, 4, 2), (0, 2, 1, 2, 3, 2), (1, 2, 3, -1, 4, 1), (2, 0, 1, -1, 2, 1, 0, 1)]
    out = c06_shapes('quick')
    for q in (0, 1, 2, 3):
        for b in (0, 2):
            for d in (1, 3):
                out.append((q, b, d, -1, 4, 2))
    out += [(2, 1, 2, 0, 4, 3), (2, 1, 1, 3, 4, 3), (1, 0, 1, 2, 4, 3), (2, 1, 1, -1, 5, 2)]
    return out

def c07f_shapes(tier):
    # (rate, interval ms, max queue ms, k, -,-,-, full chain)
    if tier == 'quick':
        return [(2, 1000, 500, 4), (10, 100, 0, 4), (3, 1000, 2000, 4), (1, 10000, 50, 3), (0, 1000, 500, 2), (1000, 1000, 50, 3), (2, 1000, 500, 2, 0, 0, 0, 1)]
    out = []
    for r in (1, 2, 10, 1000):
        for iv in (100, 1000, 10000):
            for mq in (0, 2000):
                out.append((r, iv, mq, 4))
    out += [(0, 1000, 500, 3), (3, 1000, 500, 4, 0, 0, 0, 1), (2, 1000, 500, 5), (10, 100, 50, 5)]
    return out

def c07h_shapes(tier):
    # (q, d, max queue ms, k, values, -,-, full chain)
    if tier == 'quick':
        return [(2, 1, 500, 4, 2), (1, 1, 2000, 4, 1), (10, 2, 50, 4, 2), (0, 1, 500, 2, 1), (600, 1, 20, 3, 1), (7, 1, 100, 3, 1), (2, 1, 0, 3, 1), (2, 1, 500, 2, 1, 0, 0, 1)]
    out = []
    for q in (1, 2, 7, 150, 600):
        for d in (1, 3):
            for mq in (0, 2000):
                out.append((q, d, mq, 4, 2))
    out += [(0, 1, 500, 3, 2), (2, 1, 500, 3, 2, 0, 0, 1), (2, 1, 500, 5, 2), (7, 1, 100, 5, 1)]
    return out

def c04_shapes(tier):
    # (ops, flow rule on r0, isolation threshold on r1, sums after every op)
    if tier == 'quick':
        return [(3, 1, 1, 0), (2, 0, 2, 1), (3, 2, 0, 1), (3, 3, 0, 1)]
    return [(3, 1, 1, 0), (2, 0, 2, 1), (3, 2, 0, 1), (3, 3, 0, 1), (3, 1, 2, 1), (3, 0, 0, 1)]

def c05_shapes(tier):
    if tier == 'quick':
        return [(1, 4), (2, 4)]
    return [(1, 4), (2, 4), (1, 6), (2, 5)]

def c13_shapes(tier):
    if tier == 'quick':
        return [(0, 0, 0), (1, 2, 1), (2, 1, 2), (0, 3, 1), (2, 2, 2), (1, 0, 2), (0, 0, 1), (0, 1, 0), (2, 1, 0)]
    out = []
    for a in range(0, 3):
        for b in range(0, 3):
            for c in range(0, 3):
                out.append((a, b, c))
    out += [(0, 3, 1), (3, 0, 0), (0, 0, 3), (1, 3, 0)]
    return out

def c10_shapes(tier):
    # (family, ops, duplicate-in-pool)
    if tier == 'quick':
        return [(f, 2, 0) for f in range(5)] + [(0, 2, 1), (3, 2, 1)]
    return [(f, 2, 0) for f in range(5)] + [(f, 2, 1) for f in range(5)]

def c12_shapes(fam, tier):
    """the last position (p7) = 1 adds a later append of a good rule on the same resource and a second round of entries"""
    import itertools
    def pad(t, later):
        t = tuple(t)
        return t + (0,) * (7 - len(t)) + (1 if later else 0,)
    out = []
    if fam == 'flow':
        full = list(itertools.product(range(4), range(3), range(4), range(3), range(6), range(2)))
        if tier != 'quick':
            base = c12_shapes('flow', 'quick')
            return base + [x for x in (pad(t, i % 2 == 0) for i, t in enumerate(full) if i % 7 == 0) if x not in base]
        for i, (a, b, c) in enumerate(itertools.product(range(4), range(3), range(4))):
            out.append(pad((a, b, c, i % 3, (i * 5 + a) % 6, 1 if i % 17 == 0 else 0), i % 2 == 0))
        return out
    if fam == 'breaker':
        full = list(itertools.product(range(4), range(3), range(6), range(2)))
        if tier != 'quick':
            base = c12_shapes('breaker', 'quick')
            return base + [x for x in (pad(t, i % 2 == 0) for i, t in enumerate(full) if i % 7 == 0) if x not in base]
        for i, (a, b) in enumerate(itertools.product(range(4), range(3))):
            out.append(pad((a, b, (i * 5) % 6, 0), True))
            out.append(pad((a, b, (i * 5 + 3) % 6, 1 if i % 5 == 0 else 0), False))
        return out
    if fam == 'hotspot':
        full = list(itertools.product(range(2), range(3), range(7), range(3), (0, 1, 3), range(2), range(2)))
        if tier != 'quick':
            base = c12_shapes('hotspot', 'quick')
            return base + [x for x in (pad(t, i % 2 == 0) for i, t in enumerate(full) if i % 7 == 0) if x not in base]
        for i, (a, b, c) in enumerate(itertools.product(range(2), range(3), range(7))):
            out.append(pad((a, b, c, i % 3, (0, 1, 3)[(i // 2) % 3], i % 2, 1 if i % 19 == 0 else 0), i % 3 != 2))
        return out
    if fam == 'iso_sys':
        full = [(0, 0, e, 0, r) for e in range(3) for r in range(2)] + [(m, st, e, t, 0) for m in range(1, 6) for st in range(2) for e in (0, 2) for t in range(6)]
        if tier != 'quick':
            return full
        out = [(0, 0, e, 0, r) for e in range(3) for r in range(2)]
        for i, (m, st) in enumerate(itertools.product(range(1, 6), range(2))):
            out.append((m, st, (0, 2)[i % 2], (i * 5) % 6, 0))
            out.append((m, st, (0, 2)[(i + 1) % 2], (i * 5 + 2) % 6, 0))
        return out

def c09_shapes(tier):
    # (metric, strategy, history, second rule metric + 1)
    if tier == 'quick':
        return [(0, 0, 2, 0), (0, 1, 2, 0), (4, 0, 1, 0), (4, 1, 2, 0), (1, 0, 2, 0), (2, 0, 2, 0), (3, 0, 2, 0), (2, 0, 1, 4), (0, 1, 1, 3), (0, 1, 4, 0, 1), (3, 0, 1, 0, 0, 1)]
    out = c09_shapes('quick')
    out += [(4, 1, 2, 2), (1, 0, 2, 5), (3, 1, 2, 1), (4, 1, 4, 0, 1), (3, 0, 1, 0, 0, 2), (1, 0, 2, 0, 0, 1), (2, 0, 2, 0, 0, 1)]
    return out

def c08_shapes(tier):
    # (q, cold factor, period, lemma)
    out = []
    if tier == 'quick':
        for q, c, p in [(30, 3, 1), (100, 2, 1), (60, 0, 2), (30, 6, 5), (31, 3, 2), (40, 0, 10)]:
            out += [(q, c, p, l) for l in (1, 2, 3, 4, 5)]
        return out
    for q in (30, 100, 500):
        for c in (0, 2, 3, 6):
            for p in (1, 5, 20):
                ce = 3 if c <= 1 else c
                span = 2 * p * q // (ce + 1)
                if span * (2 * p + 3) <= 8000 and q >= 10 * ce:
                    out += [(q, c, p, l) for l in (1, 2, 3, 4)]
                if q >= 10 * ce:
                    out.append((q, c, p, 5))
    return out

def c17_shapes(tier):
    if tier == 'quick':
        return {'geo': [(2, 3), (6, 5), (0, 3), (4, 4), (1, 1), (3, 2)], 'thr': [(1, 3), (4, 5), (6, 5)]}
    return {'geo': [(a, b) for a in range(7) for b in range(6)], 'thr': [(1, 3), (2, 3), (4, 5), (6, 5), (1, 2), (3, 4)]}

def c14_shapes(tier):
    # (threads, pairs per thread, preemption bound, pre-existing resource, exit mask, inbound, clock step)
    if tier == 'quick':
        return [(2, 1, 1, 0, 1, 1, 0), (2, 1, 1, 1, 3, 0, 0), (2, 1, 1, 0, 0, 1, 0), (2, 1, 1, 0, 3, 1, 1), (2, 2, 1, 0, 2, 0, 0)]
    return [(2, 1, 2, 0, 1, 1, 0), (2, 1, 2, 1, 3, 0, 0), (2, 1, 2, 0, 3, 1, 1), (3, 1, 1, 0, 5, 1, 0), (2, 2, 1, 0, 2, 1, 0), (3, 1, 1, 1, 7, 0, 1), (2, 2, 1, 1, 3, 0, 1)]

def c15_shapes(tier):
    # (family, op thread 1, op thread 2, preemption bound, entry thread, reading listener, 1 + hash-order deviations)
    if tier == 'quick':
        out = [(fam, 3, 1, 1, 0, 0, 2) for fam in range(5)]
        out += [(fam, 3, 4, 1, 0, 0, 2) for fam in range(5)] + [(fam, 3, 5, 1, 0, 0, 2) for fam in range(4)]
        out += [(1, 2, 0, 1, 0, 0, 2), (2, 3, 2, 1, 0, 0, 2), (3, 2, 4, 1, 0, 0, 2), (1, 3, 8, 1, 0, 0, 1), (0, 2, 8, 1, 0, 0, 2), (1, 1, 6, 1, 0, 1, 1), (3, 5, 8, 1, 0, 0, 2),
                (0, 3, 2, 1, 0, 0, 2), (3, 3, 2, 1, 0, 0, 2), (4, 3, 0, 1, 0, 0, 2)]
        return out
    out = []
    for fam in range(5):
        for a, b in [(3, 1), (2, 0), (3, 2), (4, 1), (5, 2), (1, 7), (3, 6), (0, 8), (2, 8), (3, 8), (4, 8), (3, 0), (3, 4), (2, 1), (3, 5), (2, 4), (1, 4)]:
            if fam == 4 and (a in (2, 5, 7) or b in (2, 5, 7)):
                continue
            out.append((fam, a, b, 1, 0, 0, 2))
    out += [(1, 3, 1, 1, 1, 0, 2), (0, 3, 1, 1, 1, 0, 2), (1, 1, 6, 1, 0, 1, 2), (1, 3, 4, 1, 0, 1, 2), (1, 3, 1, 2, 0, 0, 1), (3, 3, 1, 2, 0, 0, 1), (2, 3, 2, 1, 0, 0, 0), (3, 3, 1, 1, 0, 0, 0)]
    return out

def c16_shapes(tier):
    # (situation, preemption bound, strategy)
    if tier == 'quick':
        return [(0, 1, 2), (1, 1, 2), (2, 1, 2), (0, 1, 1), (3, 1, 2), (4, 1, 2), (3, 1, 1)]
    return [(0, 2, 2), (1, 2, 2), (2, 1, 2), (0, 2, 1), (1, 2, 1), (2, 1, 1), (3, 2, 2), (4, 2, 2), (3, 2, 1), (4, 2, 1)]

def c20_shapes(tier):
    # (requests, isolation threshold, fallback, role, drop-first-future)
    if tier == 'quick':
        return [(3, 1, 0, 0, 0), (3, 2, 1, 1, 0), (2, 1, 1, 0, 1), (2, 2, 0, 1, 1)]
    out = []
    for thr in (1, 2):
        for fb in (0, 1):
            for role in (0, 1):
                out.append((4, thr, fb, role, 0))
    out += [(3, 1, 0, 0, 1), (3, 2, 1, 1, 1)]
    return out

PROPS = {
    'C20': {
        'level': 'model_checking',
        'bounds': 'SentinelService<Inner, u8> of /repo/middleware/tower (non-http impl) around a harness service whose call outcome is symbolic per request in {ready Ok, ready Err, pending-then-Ok, pending-then-Err}; '
                  'sequences of 2-3 (quick) / 4 requests, one of which may be kept pending (in flight) while the following ones run; isolation rule with threshold 1-2; with/without fallback; server/client role; '
                  'futures polled with a no-op waker; a future dropped after its first poll is explored and observed (in-flight count afterwards), not asserted',
        'assumptions': ['the async block of the middleware is executed from its coroutine MIR; Box<dyn Error> payloads are opaque', 'the http feature impl and the tonic middleware are not covered'],
        'scenarios': [
            {'name': 'c20_tower', 'shapes': {'quick': c20_shapes('quick'), 'thorough': c20_shapes('thorough')},
             'witnesses': ['admitted', 'rejected', 'inner-error', 'held', 'dropped'], 'selftest': {'quick': 8, 'thorough': 40}},
        ],
    },
    'C11': {
        'level': 'model_checking',
        'bounds': 'twin construction: resources A and B carry equal rule pairs (a main rule of the kind under test with threshold 1-2 plus a wide side rule) and receive identical traffic at the same virtual instants; '
                  'kinds: flow reject on the resource window, flow reject on a private 700 ms window, flow throttling, flow warm-up (4 per second, period 1 s, gaps from {0, 400, 1000} ms), hotspot QPS reject, hotspot throttling, hotspot concurrency, circuit breaker (error count 1, retry 400 ms); '
                  '1-2 (quick) / up to 3 traffic steps before and 1-3 after a reload of A as freshly built equal rules with other ids in reversed order, through load-for-resource or through load-all with a new resource C in the same call; '
                  'symbolic gaps of 0-600 ms between steps, admitted pairs exit, exit with an error (breaker) or stay in flight (concurrency) by symbolic choice; finally A\'s main rule is changed (threshold; for throttling rules also only the pace) and must decide the very next entries; '
                  'hash-container iteration orders: at most 1 (thorough: 2) iterations per run deviate from insertion order, every placement explored',
        'assumptions': ['virtual clock', 'chains of the slots the kind exercises; one shape per tier with the complete global chain', 'warm-up rules are driven with gaps from a three-element set (their refill arithmetic concretises the elapsed time)'],
        'scenarios': [
            {'name': 'c11_reload', 'shapes': {'quick': c11_shapes('quick'), 'thorough': c11_shapes('thorough')},
             'witnesses': ['reloaded', 'blocked', 'changed'], 'selftest': {'quick': 8, 'thorough': 30}},
        ],
    },
    'C15': {
        'level': 'model_checking',
        'bounds': 'two threads, each one manager operation of the same family out of {load-all {A1}, load-all {A1,A2,B1}, load-for-resource r1 {A2}, append A2, clear, clear-resource r1, get_rules, get_rules_of_resource, build+exit an entry on r1} '
                  '(quick: append against load-all, clear and clear-resource in every family plus 10 more pairs, thorough: 17 pairs per family, selected triples with an entry thread), starting from a manager holding {A1}; every interleaving at visible operations with at most 1 preemption (thorough: 2 for two pairs); at most 1 hash-container iteration of the racing operations deviating from insertion order (0 for two quick shapes, unbounded for two thorough ones); '
                  'circuit breaker additionally with a state-change listener whose callbacks call get_rules_of_resource / get_breakers_of_resource; afterwards every manager must answer get_rules and accept clear + append',
        'assumptions': ['deadlock = a state in which no thread can run, or a thread re-acquiring a lock it holds', 'sequentially consistent memory', 'a deadlock is confirmed natively by a replay that hangs (schedule imposed with gdb, or stress replay with delay injection at the library sync points)'],
        'scenarios': [
            {'name': 'c15_managers', 'threads': True, 'shapes': {'quick': c15_shapes('quick'), 'thorough': c15_shapes('thorough')},
             'witnesses': ['joined'], 'selftest': {'quick': 4, 'thorough': 10}},
        ],
    },
    'C16': {
        'level': 'model_checking',
        'bounds': 'one breaker (error count threshold 1 or error ratio 0.5, min_request_amount 1, retry 400 ms) and 2-3 threads around each transition: (0) two failing completions that each would open it, '
                  '(1) two requests arriving after the retry timeout, (2) the probe completion racing a new request and a stale failing completion, (3) a failing probe racing a new request, (4) an opening failure racing a new request; every interleaving at visible operations with at most 1 (quick) / 2 preemptions; clock fixed during the race',
        'assumptions': ['sequentially consistent memory', 'chain of the real breaker check and statistic slots plus a slot that records the round trip'],
        'scenarios': [
            {'name': 'c16_breaker_race', 'threads': True, 'shapes': {'quick': c16_shapes('quick'), 'thorough': c16_shapes('thorough')},
             'witnesses': ['raced'], 'selftest': {'quick': 4, 'thorough': 8}},
        ],
    },
    'C14': {
        'level': 'model_checking',
        'bounds': '2 (quick) / 2-3 threads, each 1-2 build/exit pairs (exit per thread on/off) on one resource, fresh or pre-existing, inbound or outbound; schedules: every interleaving of the threads at their visible '
                  'operations (lock acquire/release, atomic operations, spawn/join, yield, the library sync points) with at most 1 (quick) / 2 (thorough, 2 threads) preemptions; clock fixed inside a bucket, or stepped into the next bucket by thread 0 after its first entry; '
                  'chain of the real prepare and resource-statistic slots',
        'assumptions': ['sequentially consistent memory', 'initialisers of lazy statics and Once run without preemption (std blocks concurrent callers)',
                        'a schedule-dependent counterexample is confirmed natively by imposing its preemptions on the debug binary with gdb (non-stop mode: the preempted thread is held at the source line of the preemption while the others run), failing that by a stress replay with delay injection and randomised thread start offsets (up to 1600 runs); one that never reproduces is reported as inconclusive, not as a violation'],
        'scenarios': [
            {'name': 'c14_shared_node', 'threads': True, 'shapes': {'quick': c14_shapes('quick'), 'thorough': c14_shapes('thorough')},
             'witnesses': ['joined'], 'selftest': {'quick': 4, 'thorough': 8}},
        ],
    },
    'C17': {
        'level': 'model_checking',
        'bounds': '(a) every (sample_count_total, interval_ms_total) from {0,1,2,3,4,6,20} x {0,1,500,1000,1500,10000} as shapes (quick: six of them), the default metric (sample_count, interval_ms) symbolic over the same grids: '
                  'validation result compared with a reference servability predicate; if accepted a node is created and one write / one read at symbolic times (t0 over two intervals, gap in [0, 2 interval]) must follow the configured geometry; '
                  'if rejected init_with_config must fail. (b) configuration installed in one thread, read in a thread spawned afterwards (thread runs at its spawn point). YAML text is not covered (serde_yaml is outside the encoding)',
        'assumptions': ['configuration installed through ConfigEntity + reset_global_config (init_with_config is only driven on the rejecting path, it starts collector threads otherwise)',
                        'the spawned thread is executed sequentially at its spawn point (one legal schedule; the property part (b) does not depend on interleaving)'],
        'scenarios': [
            {'name': 'c17_geometry', 'shapes': {'quick': c17_shapes('quick')['geo'], 'thorough': c17_shapes('thorough')['geo']},
             'witnesses': ['accepted', 'rejected'], 'selftest': {'quick': 8, 'thorough': 40}},
            {'name': 'c17_threads', 'shapes': {'quick': c17_shapes('quick')['thr'], 'thorough': c17_shapes('thorough')['thr']},
             'witnesses': ['other-thread'], 'selftest': {'quick': 3, 'thorough': 6}},
        ],
    },
    'C08': {
        'level': 'model_checking',
        'bounds': 'inductive steps of the real warm-up calculator from an arbitrary state: stored tokens in [0, max_token], one time step of 0..2p+2 s (idle lemma: 2p..5p s) at any millisecond phase, '
                  'previous-interval pass count in [0, q]; (q, cold factor, period) concrete per shape: quick {(30,3,1),(100,2,1),(60,default,2),(30,6,5),(31,3,2),(40,default,10)} (the last two with q not a multiple of c), thorough all of q in {30,100,500} x c in {default,2,3,6} x p in {1,5,20} '
                  'with q >= 10c whose token range stays enumerable; plus the ramp trajectory itself (2p+2 one-second steps from cold under the slowest saturating demand, symbolic millisecond phase) for every listed (q, c, p) - other saturating demands follow from lemmas 2 and 3 by the monotonicity argument in DESIGN.md, not from a solver run',
        'assumptions': ['the calculator is wired to a controller like the built-in generator does, with a harness ReadStat supplying the previous-interval pass count', 'state set/read through the verif_state hooks',
                        'float results compared with 1e-9 relative tolerance (the implementation nudges by one ulp)',
                        'stored tokens above the warning line and the elapsed seconds enter non-exact float arithmetic and are therefore enumerated by the solver (every feasible value is a path)'],
        'scenarios': [
            {'name': 'c08_warmup', 'shapes': {'quick': c08_shapes('quick'), 'thorough': c08_shapes('thorough')}, 'concretize_cap': 8000,
             'witnesses': ['same-second', 'new-second', 'warm', 'cold', 'ramping', 'idle', 'ramped'], 'selftest': {'quick': 12, 'thorough': 60}},
        ],
    },
    'C09': {
        'level': 'model_checking',
        'bounds': 'all five metric types x both strategies, 1-2 rules; thresholds symbolic in quarters in [0,4] (CPU: [0,100]); injected load in quarters in [0,1], CPU in {0,25,50,75,100}; '
                  'inbound history of 1-2 entries (thorough: more rule pairs and probe sequences) with symbolic gaps in [0,600] ms, each completed after 10/100/250 ms or left open (plus a BBR pattern: two completed entries with response times from {1,100,1000} ms and two or three left in flight); probe inbound or outbound after a gap in [0,600] ms; selected shapes with 2-3 probes in a row (an admitted probe completes at once and is accounted, a rejected one must leave no trace in what the next probe sees)',
        'assumptions': ['load/CPU readings injected through the verif_set_readings hook', 'chain of the real prepare, system and resource-statistic slots plus an observer slot',
                        'observed values recomputed from a ledger with the window function of the default metric (two 500 ms buckets)'],
        'scenarios': [
            {'name': 'c09_system', 'shapes': {'quick': c09_shapes('quick'), 'thorough': c09_shapes('thorough')},
             'witnesses': ['admitted', 'rejected'], 'selftest': {'quick': 10, 'thorough': 60}},
        ],
    },
    'C12': {
        'level': 'model_checking',
        'bounds': 'one rule per run; enum-valued fields of all five families as shapes (thorough: every seventh element of the full cross product, quick: a covering sample): flow calculate x control x relation '
                  '(incl. Custom(7), an associated resource never seen, an empty associated name), breaker strategies incl. Custom, hotspot metric x control x param index -3..3 x keyed, system metric x strategy; '
                  'thresholds from {-1, 0, 0.5, 1, 1e6, NaN}; every other numeric field symbolic over three boundary values (0 / 1 / large); loading entry point in {load-all, load-for-resource, append}; '
                  'empty resource names; then two entries (batch in {0,1,1e6}, 0/1/3 args, attachments) with exits 700 ms later; for a third to a half of the shapes then an append of a known-good rule on the same resource (an ignored invalid rule must stay ignored) and two more entries; then a health probe of every manager',
        'assumptions': ['no panic path may exist: a panic found symbolically is replayed natively (exit code 101)', 'log level Off; formatting opaque',
                        'system memory size modelled as 64 GiB (memory-adaptive water marks in the harness are far below)'],
        'scenarios': [
            {'name': 'c12_flow', 'shapes': {'quick': c12_shapes('flow', 'quick'), 'thorough': c12_shapes('flow', 'thorough')},
             'witnesses': ['valid-rule', 'invalid-rule', 'entry-passed', 'entry-blocked'], 'selftest': {'quick': 10, 'thorough': 60}},
            {'name': 'c12_breaker', 'shapes': {'quick': c12_shapes('breaker', 'quick'), 'thorough': c12_shapes('breaker', 'thorough')},
             'witnesses': ['valid-rule', 'invalid-rule'], 'selftest': {'quick': 6, 'thorough': 40}},
            {'name': 'c12_hotspot', 'shapes': {'quick': c12_shapes('hotspot', 'quick'), 'thorough': c12_shapes('hotspot', 'thorough')},
             'witnesses': ['valid-rule', 'invalid-rule', 'entry-passed', 'entry-blocked'], 'selftest': {'quick': 10, 'thorough': 60}},
            {'name': 'c12_iso_sys', 'shapes': {'quick': c12_shapes('iso_sys', 'quick'), 'thorough': c12_shapes('iso_sys', 'thorough')},
             'witnesses': ['valid-rule', 'invalid-rule'], 'selftest': {'quick': 6, 'thorough': 40}},
        ],
    },
    'C10': {
        'level': 'model_checking',
        'bounds': 'five managers; pool of two valid rules on r1, one on r2, one invalid on r1 and (selected shapes) a rule equal to the first under another id; '
                  'operation sequences of length 2 (thorough: for every family also with the equal-rule-under-another-id in the pool) over {load-all(S), load-for-resource(r,S), append(x), clear, clear-resource(r)} with S from 7 (5) representative subsets and r in {r1,r2,""}; '
                  'hash-set/map iteration orders inside the managers: every element first, remaining elements in insertion or reversed order (all orders up to 3 elements)',
        'assumptions': ['reported rules are compared as sets under rule equality after every operation; return values only for duplicate-free calls',
                        'HashSet lookups of a rule that is equal but hashed differently (different id) are modelled as misses'],
        'scenarios': [
            {'name': 'c10_manager', 'shapes': {'quick': c10_shapes('quick'), 'thorough': c10_shapes('thorough')},
             'witnesses': ['appended', 'invalid-append', 'identical-reload', 'empty-resource-refused'], 'selftest': {'quick': 10, 'thorough': 40}},
        ],
    },
    'C03': {
        'level': 'model_checking',
        'bounds': 'strategies slow-ratio/error-ratio/error-count; 1-2 breakers on one resource (second with doubled retry timeout); 1-2 window buckets of a 1000 ms window; '
                  'retry timeout 400 ms (shorter than the window) or 1500 ms (longer); event depth 3-5, plus depth 6 with the second event scripted (first entry fails), count threshold 1, min_request_amount <= 1 and gaps <= 600 ms, over {enter, complete oldest ok, complete oldest with error}, '
                  'each preceded by a symbolic time advance in [0, max(1000, retry)+100] ms; min_request_amount in [0,3]; ratio thresholds from {0,1/4,1/3,1/2,2/3,3/4,1}, count thresholds in [0,4]; max_allowed_rt 100 ms',
        'assumptions': ['virtual clock', 'breaker consultation order is read back from get_breakers_of_resource',
                        'a probe rejected by another breaker returns to Open without a new retry time (as the property states only the return to Open)'],
        'scenarios': [
            {'name': 'c03_breaker', 'shapes': {'quick': c03_shapes('quick'), 'thorough': c03_shapes('thorough')},
             'witnesses': ['opened', 'rejected', 'probe-admitted', 'closed-after-probe', 'reopened-after-probe', 'probe-rejected'],
             'selftest': {'quick': 8, 'thorough': 40}},
        ],
    },
    'C04': {
        'level': 'model_checking',
        'bounds': 'two resources (one inbound, one outbound), optional flow rule (reject with threshold symbolic in [0,4]; or throttling 10/s with queueing up to 500 ms on one resource and gaps <= 300 ms, so that entries are held before they pass) on the first (or a system rule that admits one inbound entry at a time) and isolation rule on the second; op sequences of length 2-3 (thorough: two more rule configurations) '
                  'over {build r0, build r1, exit first/second open entry}; batch in [1,3]; gaps in [0,1200] ms; after every op all counters of both nodes and of the inbound node are compared with a ledger',
        'assumptions': ['virtual clock', 'window function of the default metric: two 500 ms buckets ending at the current bucket'],
        'scenarios': [
            {'name': 'c04_accounting', 'shapes': {'quick': c04_shapes('quick'), 'thorough': c04_shapes('thorough')},
             'witnesses': ['pass', 'block', 'queued'], 'selftest': {'quick': 8, 'thorough': 40}},
        ],
    },
    'C05': {
        'level': 'model_checking',
        'bounds': 'isolation: 1-2 rules with thresholds in [1,3], batch in [1,3], op sequences of length 4 (quick) / 4-6 (thorough) over {build, exit first/last open entry}; '
                  'hotspot concurrency: see c05_hotspot shapes',
        'assumptions': ['rejections observed through an extra statistic slot appended to a chain built like the global one (hook slot_chain_with)'],
        'scenarios': [
            {'name': 'c05_isolation', 'shapes': {'quick': c05_shapes('quick'), 'thorough': c05_shapes('thorough')},
             'witnesses': ['admitted', 'rejected'], 'selftest': {'quick': 8, 'thorough': 40}},
            {'name': 'c05_hotspot', 'shapes': {'quick': c05h_shapes('quick'), 'thorough': c05h_shapes('thorough')},
             'witnesses': ['admitted', 'rejected'], 'selftest': {'quick': 8, 'thorough': 40}},
        ],
    },
    'C06': {
        'level': 'model_checking',
        'bounds': 'one hotspot QPS/reject rule on positional parameter 0: q in 0..3 per d in 1..3 s, burst 0..2, optional override for value 0; 1-3 distinct values (within capacity); '
                  'k<=4 requests (thorough: more configurations, one with 5); batch in [1,3]; t0 in [T,T+999], gaps in [0, 2.5 d] s (so exactly d and d+1 ms are in range); q, b, d concrete per shape '
                  '(the refill term pass_time*q/(1000 d) stays linear)',
        'assumptions': ['driven through a chain of the real prepare and hotspot slots (statistic slots left out, they do not influence hotspot QPS control); one shape uses the complete global chain'],
        'scenarios': [
            {'name': 'c06_hotspot_qps', 'shapes': {'quick': c06_shapes('quick'), 'thorough': c06_shapes('thorough')},
             'witnesses': ['admitted', 'rejected'], 'selftest': {'quick': 8, 'thorough': 40}},
        ],
    },
    'C07': {
        'level': 'model_checking',
        'bounds': 'flow throttling: rate in {0,1,2,3,10,1000} per {100,1000,10000} ms, max queueing in {0,50,500,2000} ms, k<=4 requests (thorough: more configurations, two with 5), arrival instants symbolic in ns '
                  '(gaps in [0, 3 I/r + Q]), batch in [1,3]; pace compared with 1 ns slack per request (the implementation computes it in f64). '
                  'hotspot throttling: q in {0,1,2,3,7,10,150,600} per 1-3 s, max queueing {0,50,500,2000} ms, 1-2 values, batch in [1,2], ms clock, 1 ms rounding slack',
        'assumptions': ['virtual clock: sleep_for_ns/sleep_for_ms advance it, so "the caller was held" = the clock moved by at least the promised wait',
                        'chains of the real prepare slot plus the real flow (hotspot) slot; one shape per family uses the complete global chain'],
        'scenarios': [
            {'name': 'c07_flow_throttling', 'shapes': {'quick': c07f_shapes('quick'), 'thorough': c07f_shapes('thorough')},
             'witnesses': ['admitted-now', 'queued', 'rejected', 'always-rejected'], 'selftest': {'quick': 8, 'thorough': 40}},
            {'name': 'c07_hotspot_throttling', 'shapes': {'quick': c07h_shapes('quick'), 'thorough': c07h_shapes('thorough')},
             'witnesses': ['admitted-now', 'queued', 'rejected'], 'selftest': {'quick': 8, 'thorough': 40}},
        ],
    },
    'C13': {
        'level': 'model_checking',
        'bounds': '0-2 slots of each kind in every combination (quick: selected ones), selected chains with 3 slots of one kind, with symbolic order values in [0,3] (ties included) added in any order; every check result in {pass, blocked(type i), wait(0)}; one entry, exited once',
        'assumptions': ['unstable sort modelled as any permutation consistent with the keys'],
        'scenarios': [
            {'name': 'c13_chain', 'shapes': {'quick': c13_shapes('quick'), 'thorough': c13_shapes('thorough')},
             'witnesses': ['passed', 'blocked'], 'selftest': {'quick': 8, 'thorough': 40}},
        ],
    },
    'C01': {
        'level': 'model_checking',
        'bounds': '1-3 direct/reject rules on one resource, window classes default/reuse(1,4,10,20 buckets)/private(250,700,1500,20000 ms); k<=3 requests (2 with two rules); '
                  't0 in two buckets before the ring wraps, gaps in [0, 2.5*max interval], batch in [0,3], thresholds in halves in [0,4], any open entry may be exited before each request',
        'assumptions': ['virtual clock (hook) drives curr_time_millis', 'HashMap/HashSet modelled as insertion-ordered maps with run-chosen iteration order',
                        'f64 values derived from symbolic integers are exact dyadic rationals (side conditions checked), other floats are concrete IEEE doubles'],
        'scenarios': [
            {'name': 'c01_flow_reject', 'shapes': {'quick': c01_shapes('quick'), 'thorough': c01_shapes('thorough')},
             'witnesses': ['admitted', 'rejected'], 'selftest': {'quick': 8, 'thorough': 40}},
        ],
    },
    'C02': {
        'level': 'model_checking',
        'bounds': 'ring geometries and read windows enumerated as shapes; k<=3 writes (thorough: 4 for rings of at most 2 buckets, and more geometries) then one read; '
                  't0 in [1e12, 1e12+10*interval], gaps in [0, 3*interval], counts in [0,7]',
        'assumptions': ['timestamps are at least one interval after the epoch (start stamp 0 is the empty marker)',
                        'std containers, Arc, Mutex, atomics and enum_map are modelled at API level (mirsym/models.py)',
                        'integers are mathematical with range side conditions; overflow is a panic path (dev profile semantics)'],
        'scenarios': [
            {'name': 'c02_window', 'shapes': {'quick': c02_shapes('quick'), 'thorough': c02_shapes('thorough')},
             'witnesses': [], 'selftest': {'quick': 8, 'thorough': 40},
             'limits': {'quick': {'max_seconds': 240}, 'thorough': {'max_seconds': 3000}}},
        ],
    },
}
