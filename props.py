"""Per-property scenario specifications (shapes = structural bounds, all concrete)."""

def c02_shapes(tier):
    # (N ring buckets, ring interval ms, read buckets, read interval ms, k writes)
    geos = [(1, 1000), (2, 1000), (4, 2000), (2, 2), (3, 21)]
    if tier == 'thorough':
        geos += [(1, 1), (5, 1000), (3, 300), (20, 10000), (4, 4000), (5, 35)]
    out = []
    for n, ring in geos:
        l = ring // n
        k = 3 if tier == 'quick' else min(5, n + 2)
        for rn in range(1, n + 1):
            if n % rn == 0 or True:
                r_ms = rn * l
                if ring % r_ms == 0:
                    out.append((n, ring, rn, r_ms, k))
    return out

def c01_shapes(tier):
    # (nrules, class1, class2, class3, k)
    if tier == 'quick':
        return [(1, 0, 0, 0, 3), (1, 3, 0, 0, 2), (1, 6, 0, 0, 2), (2, 0, 7, 0, 2)]
    out = []
    for c in range(10):
        out.append((1, c, 0, 0, 3))
    for a, b in [(0, 3), (2, 6), (1, 8), (5, 9), (4, 7)]:
        out.append((2, a, b, 0, 3))
    out.append((3, 0, 3, 7, 3))
    out.append((1, 0, 0, 0, 4))
    return out

PROPS = {
    'C01': {
        'level': 'model_checking',
        'bounds': '1-3 direct/reject rules on one resource, window classes default/reuse(1,4,10,20 buckets)/private(250,700,1500,20000 ms); k<=3 (quick) / <=4 requests; '
                  't0 in two buckets before the ring wraps, gaps in [0, 2.5*max interval], batch in [0,3], thresholds in halves in [0,4], any open entry may be exited before each request',
        'assumptions': ['virtual clock (hook) drives curr_time_millis', 'HashMap/HashSet modelled as insertion-ordered maps with run-chosen iteration order',
                        'f64 values derived from symbolic integers are exact dyadic rationals (side conditions checked), other floats are concrete IEEE doubles'],
        'scenarios': [
            {'name': 'c01_flow_reject', 'shapes': {'quick': c01_shapes('quick'), 'thorough': c01_shapes('thorough')},
             'witnesses': ['admitted', 'rejected'], 'selftest': {'quick': 8, 'thorough': 40}},
        ],
    },
    'C02': {
        'level': 'model_checking',
        'bounds': 'ring geometries and read windows enumerated as shapes; k<=3 (quick) / <=5 (thorough) writes then one read; '
                  't0 in [1e12, 1e12+10*interval], gaps in [0, 3*interval], counts in [0,7]',
        'assumptions': ['timestamps are at least one interval after the epoch (start stamp 0 is the empty marker)',
                        'std containers, Arc, Mutex, atomics and enum_map are modelled at API level (mirsym/models.py)',
                        'integers are mathematical with range side conditions; overflow is a panic path (dev profile semantics)'],
        'scenarios': [
            {'name': 'c02_window', 'shapes': {'quick': c02_shapes('quick'), 'thorough': c02_shapes('thorough')},
             'witnesses': [], 'selftest': {'quick': 8, 'thorough': 40},
             'limits': {'quick': {'max_seconds': 240}, 'thorough': {'max_seconds': 3000}}},
        ],
    },
}
