//! mirdump: rustc wrapper (RUSTC_WORKSPACE_WRAPPER) that dumps the monomorphised MIR
//! reachable from the harness crate's monomorphic functions as JSON lines.
//!
//! env: MIRDUMP_CRATE  crate name to dump (others are compiled normally)
//!      MIRDUMP_OUT    output file (jsonl)
//!      MIRDUMP_STOP   file with one name-substring per line: instances whose
//!                     name contains one are not descended into ("ext" records)
#![feature(rustc_private)]
extern crate rustc_driver;
extern crate rustc_interface;
extern crate rustc_middle;
#[macro_use]
extern crate rustc_public;
extern crate rustc_public_bridge;
extern crate serde_json;

use rustc_public::mir::alloc::{AllocId, GlobalAlloc};
use rustc_public::mir::mono::{Instance, InstanceKind, StaticDef};
use rustc_public::mir::visit::{Location, MirVisitor};
use rustc_public::mir::{
    Body, CastKind, PointerCoercion, Rvalue, Terminator, TerminatorKind,
};
use rustc_public::ty::{
    AdtKind, Allocation, ClosureKind, ConstantKind, GenericArgKind, GenericArgs, MirConst,
    RigidTy, Ty, TyConst, TyConstKind, TyKind,
};
use rustc_public::{CrateDef, CrateDefType};
use rustc_public_bridge::IndexedVal;
use serde_json::{json, Value};
use std::collections::{HashMap, HashSet, VecDeque};
use std::io::Write;
use std::ops::ControlFlow;

struct Dumper {
    out: std::io::BufWriter<std::fs::File>,
    stop: Vec<String>,
    seen_inst: HashSet<String>,
    q: VecDeque<Instance>,
    seen_ty: HashSet<usize>,
    tyq: VecDeque<Ty>,
    seen_alloc: HashSet<usize>,
    allocq: VecDeque<AllocId>,
    seen_static: HashSet<usize>,
    // (concrete pointee type, dyn type) pairs met at unsizing casts
    unsize: HashSet<(usize, usize)>,
    // virtual call sites: mangled name of the Virtual instance -> (def, args)
    vcalls: HashMap<String, (rustc_public::ty::FnDef, GenericArgs, usize)>,
    vdone: HashSet<(String, usize)>,
    nbodies: usize,
    next: usize,
    iter_next: Option<rustc_public::ty::FnDef>,
}

fn iid(i: &Instance) -> String {
    // mangled names are unique per instance except that Virtual/Item may collide; prefix kind
    match i.kind {
        InstanceKind::Virtual { idx } => format!("V{}:{}", idx, i.mangled_name()),
        _ => i.mangled_name(),
    }
}

impl Dumper {
    fn emit(&mut self, v: Value) {
        writeln!(self.out, "{}", v).unwrap();
    }
    fn ty(&mut self, t: Ty) -> usize {
        let id = t.to_index();
        if self.seen_ty.insert(id) {
            self.tyq.push_back(t);
        }
        id
    }
    fn inst(&mut self, i: Instance) -> String {
        let id = iid(&i);
        if !self.seen_inst.contains(&id) {
            self.q.push_back(i);
        }
        id
    }
    fn args_json(&mut self, args: &GenericArgs) -> Value {
        let mut v = vec![];
        for a in &args.0 {
            match a {
                GenericArgKind::Type(t) => v.push(json!({"ty": self.ty(*t)})),
                GenericArgKind::Const(c) => v.push(json!({"const": self.tyconst(c)})),
                GenericArgKind::Lifetime(_) => {}
            }
        }
        Value::Array(v)
    }
    fn tyconst(&mut self, c: &TyConst) -> Value {
        match c.kind() {
            TyConstKind::Value(t, a) => {
                let t = self.ty(*t);
                json!({"ty": t, "alloc": self.allocation(a)})
            }
            _ => match c.eval_target_usize() {
                Ok(n) => json!({"usize": n}),
                Err(_) => json!({"opaque": format!("{:?}", c.kind())}),
            },
        }
    }
    fn allocation(&mut self, a: &Allocation) -> Value {
        let bytes: Vec<Value> = a
            .bytes
            .iter()
            .map(|b| match b {
                Some(x) => json!(*x),
                None => Value::Null,
            })
            .collect();
        let mut prov = vec![];
        for (off, p) in &a.provenance.ptrs {
            let aid = p.0;
            let n = aid.to_index();
            if self.seen_alloc.insert(n) {
                self.allocq.push_back(aid);
            }
            prov.push(json!([off, n]));
        }
        json!({"bytes": bytes, "prov": prov, "align": a.align})
    }
    fn drop_glue(&mut self, t: Ty) -> Option<String> {
        let i = Instance::resolve_drop_in_place(t);
        if i.is_empty_shim() {
            None
        } else {
            Some(self.inst(i))
        }
    }

    fn dump_ty(&mut self, t: Ty) {
        let id = t.to_index();
        let mut rec = json!({"k": "ty", "id": id, "str": format!("{}", t)});
        let kind = t.kind();
        let o = rec.as_object_mut().unwrap();
        match kind {
            TyKind::RigidTy(r) => match r {
                RigidTy::Bool => { o.insert("kind".into(), json!("bool")); }
                RigidTy::Char => { o.insert("kind".into(), json!("char")); }
                RigidTy::Int(i) => {
                    o.insert("kind".into(), json!("int"));
                    o.insert("signed".into(), json!(true));
                    o.insert("bits".into(), json!(i.num_bytes() * 8));
                }
                RigidTy::Uint(i) => {
                    o.insert("kind".into(), json!("int"));
                    o.insert("signed".into(), json!(false));
                    o.insert("bits".into(), json!(i.num_bytes() * 8));
                }
                RigidTy::Float(f) => {
                    o.insert("kind".into(), json!("float"));
                    o.insert("bits".into(), json!(match f {
                        rustc_public::ty::FloatTy::F16 => 16,
                        rustc_public::ty::FloatTy::F32 => 32,
                        rustc_public::ty::FloatTy::F64 => 64,
                        rustc_public::ty::FloatTy::F128 => 128,
                    }));
                }
                RigidTy::Adt(def, args) => {
                    o.insert("kind".into(), json!("adt"));
                    o.insert("adt".into(), json!(match def.kind() {
                        AdtKind::Enum => "enum",
                        AdtKind::Struct => "struct",
                        AdtKind::Union => "union",
                    }));
                    o.insert("name".into(), json!(def.name()));
                    o.insert("krate".into(), json!(def.krate().name));
                    o.insert("is_box".into(), json!(def.is_box()));
                    let a = self.args_json(&args);
                    let mut variants = vec![];
                    for (vi, v) in def.variants().into_iter().enumerate() {
                        let mut fields = vec![];
                        for f in v.fields() {
                            let ft = f.ty_with_args(&args);
                            fields.push(json!({"name": f.name, "ty": self.ty(ft)}));
                        }
                        let (discr, discr_ty) = if def.kind() == AdtKind::Enum {
                            let d = def.discriminant_for_variant(rustc_public::ty::VariantIdx::to_val(vi));
                            (json!(d.val.to_string()), json!(self.ty(d.ty)))
                        } else {
                            (Value::Null, Value::Null)
                        };
                        variants.push(json!({"name": v.name(), "fields": fields, "discr": discr, "discr_ty": discr_ty}));
                    }
                    let o = rec.as_object_mut().unwrap();
                    o.insert("args".into(), a);
                    o.insert("variants".into(), json!(variants));
                }
                RigidTy::Foreign(_) => { o.insert("kind".into(), json!("foreign")); }
                RigidTy::Str => { o.insert("kind".into(), json!("str")); }
                RigidTy::Array(e, n) => {
                    let e = self.ty(e);
                    let n = n.eval_target_usize().ok();
                    let o = rec.as_object_mut().unwrap();
                    o.insert("kind".into(), json!("array"));
                    o.insert("elem".into(), json!(e));
                    o.insert("len".into(), json!(n));
                }
                RigidTy::Pat(inner, _) => {
                    let e = self.ty(inner);
                    let o = rec.as_object_mut().unwrap();
                    o.insert("kind".into(), json!("pat"));
                    o.insert("inner".into(), json!(e));
                }
                RigidTy::Slice(e) => {
                    let e = self.ty(e);
                    let o = rec.as_object_mut().unwrap();
                    o.insert("kind".into(), json!("slice"));
                    o.insert("elem".into(), json!(e));
                }
                RigidTy::RawPtr(p, m) => {
                    let p = self.ty(p);
                    let o = rec.as_object_mut().unwrap();
                    o.insert("kind".into(), json!("ptr"));
                    o.insert("pointee".into(), json!(p));
                    o.insert("mut".into(), json!(m == rustc_public::mir::Mutability::Mut));
                }
                RigidTy::Ref(_, p, m) => {
                    let p = self.ty(p);
                    let o = rec.as_object_mut().unwrap();
                    o.insert("kind".into(), json!("ref"));
                    o.insert("pointee".into(), json!(p));
                    o.insert("mut".into(), json!(m == rustc_public::mir::Mutability::Mut));
                }
                RigidTy::FnDef(def, args) => {
                    let a = self.args_json(&args);
                    let mut inst = Value::Null;
                    let mut ikind = Value::Null;
                    let mut fnptr = Value::Null;
                    if let Ok(i) = Instance::resolve(def, &args) {
                        ikind = json!(format!("{:?}", i.kind));
                        if let InstanceKind::Virtual { .. } = i.kind {
                            let recv = args.0.iter().find_map(|g| g.ty().copied());
                            if let Some(recv) = recv {
                                let rid = self.ty(recv);
                                self.vcalls.insert(iid(&i), (def, args.clone(), rid));
                            }
                        }
                        inst = json!(self.inst(i));
                    }
                    if let Ok(i) = Instance::resolve_for_fn_ptr(def, &args) {
                        fnptr = json!(self.inst(i));
                    }
                    let o = rec.as_object_mut().unwrap();
                    o.insert("kind".into(), json!("fndef"));
                    o.insert("name".into(), json!(def.name()));
                    o.insert("args".into(), a);
                    o.insert("inst".into(), inst);
                    o.insert("inst_kind".into(), ikind);
                    o.insert("fnptr_inst".into(), fnptr);
                }
                RigidTy::FnPtr(sig) => {
                    let n = sig.value.inputs_and_output.len();
                    o.insert("kind".into(), json!("fnptr"));
                    o.insert("nargs".into(), json!(n - 1));
                }
                RigidTy::Closure(def, args) => {
                    let a = self.args_json(&args);
                    let mut once = Value::Null;
                    if let Ok(i) = Instance::resolve_closure(def, &args, ClosureKind::FnOnce) {
                        once = json!(self.inst(i));
                    }
                    // the closure body itself (called through &self / &mut self / self according to its kind)
                    let mut body = Value::Null;
                    if let Ok(i) = Instance::resolve_closure(def, &args, ClosureKind::FnMut) {
                        body = json!(self.inst(i));
                    }
                    let o = rec.as_object_mut().unwrap();
                    o.insert("kind".into(), json!("closure"));
                    o.insert("name".into(), json!(def.name()));
                    o.insert("args".into(), a);
                    o.insert("call_once".into(), once);
                    o.insert("call_mut".into(), body);
                }
                RigidTy::Coroutine(def, args) => {
                    let a = self.args_json(&args);
                    let o = rec.as_object_mut().unwrap();
                    o.insert("kind".into(), json!("coroutine"));
                    o.insert("name".into(), json!(def.name()));
                    o.insert("args".into(), a);
                }
                RigidTy::CoroutineClosure(def, _) => {
                    o.insert("kind".into(), json!("coroutine_closure"));
                    o.insert("name".into(), json!(def.name()));
                }
                RigidTy::CoroutineWitness(..) => { o.insert("kind".into(), json!("witness")); }
                RigidTy::Dynamic(preds, _) => {
                    let mut names = vec![];
                    for p in &preds {
                        match &p.value {
                            rustc_public::ty::ExistentialPredicate::Trait(t) => names.push(t.def_id.name()),
                            rustc_public::ty::ExistentialPredicate::AutoTrait(t) => names.push(t.name()),
                            _ => {}
                        }
                    }
                    o.insert("kind".into(), json!("dyn"));
                    o.insert("traits".into(), json!(names));
                }
                RigidTy::Never => { o.insert("kind".into(), json!("never")); }
                RigidTy::Tuple(ts) => {
                    let v: Vec<usize> = ts.iter().map(|t| self.ty(*t)).collect();
                    let o = rec.as_object_mut().unwrap();
                    o.insert("kind".into(), json!("tuple"));
                    o.insert("fields".into(), json!(v));
                }
            },
            other => {
                o.insert("kind".into(), json!("other"));
                o.insert("dbg".into(), json!(format!("{:?}", other)));
            }
        }
        // layout + drop glue
        let (layout, drop) = {
            let l = t.layout().ok().and_then(|l| serde_json::to_string(&l.shape()).ok());
            let is_sized_like = !matches!(t.kind(), TyKind::RigidTy(RigidTy::FnDef(..)) | TyKind::RigidTy(RigidTy::Never));
            let d = if is_sized_like && matches!(t.kind(), TyKind::RigidTy(_)) { self.drop_glue(t) } else { None };
            (l, d)
        };
        let o = rec.as_object_mut().unwrap();
        o.insert("drop".into(), json!(drop));
        // layout may contain u128 values serde_json::Value cannot hold: splice the raw JSON text
        let mut line = rec.to_string();
        line.pop();
        line.push_str(",\"layout\":");
        line.push_str(layout.as_deref().unwrap_or("null"));
        line.push('}');
        writeln!(self.out, "{}", line).unwrap();
    }

    fn dump_alloc(&mut self, aid: AllocId) {
        let n = aid.to_index();
        let ga = GlobalAlloc::from(aid);
        let rec = match ga {
            GlobalAlloc::Function(i) => json!({"k":"alloc","id":n,"kind":"fn","inst": self.inst(i)}),
            GlobalAlloc::VTable(t, _) => json!({"k":"alloc","id":n,"kind":"vtable","ty": self.ty(t)}),
            GlobalAlloc::Static(s) => {
                let sid = self.static_(s);
                json!({"k":"alloc","id":n,"kind":"static","static": sid})
            }
            GlobalAlloc::Memory(a) => {
                let a = self.allocation(&a);
                json!({"k":"alloc","id":n,"kind":"mem","alloc": a})
            }
            GlobalAlloc::TypeId { ty } => json!({"k":"alloc","id":n,"kind":"typeid","ty": self.ty(ty)}),
        };
        self.emit(rec);
    }

    fn static_(&mut self, s: StaticDef) -> usize {
        let sid = s.def_id().to_index();
        if self.seen_static.insert(sid) {
            let t = self.ty(s.ty());
            let init = match s.eval_initializer() {
                Ok(a) => self.allocation(&a),
                Err(e) => json!({"error": format!("{:?}", e)}),
            };
            self.emit(json!({"k":"static","id":sid,"name": s.name(),"ty": t,"init": init}));
        }
        sid
    }

    fn is_stopped(&self, name: &str) -> bool {
        // a pattern matches at a path start: beginning of the name or after a non-path character
        self.stop.iter().any(|p| {
            let mut from = 0;
            while let Some(i) = name[from..].find(p.as_str()) {
                let at = from + i;
                let ok = at == 0 || {
                    let c = name.as_bytes()[at - 1] as char;
                    !(c.is_alphanumeric() || c == '_' || c == ':')
                };
                if ok { return true; }
                from = at + 1;
            }
            false
        })
    }
    /// stop decision on the *definition path* (no generic arguments); drop glue is
    /// decided on the dropped type's own definition path
    fn is_stopped_inst(&self, inst: &Instance) -> bool {
        let dname = inst.def.name();
        if dname.ends_with("ptr::drop_in_place") {
            let args = inst.args();
            if let Some(GenericArgKind::Type(t)) = args.0.first() {
                return match t.kind().rigid() {
                    Some(RigidTy::Adt(def, _)) => self.is_stopped(&def.name()),
                    Some(RigidTy::Dynamic(..)) => true,
                    _ => false,
                };
            }
        }
        // `<X as Trait>::method`: decided by the implementing type X; by the trait only for blanket impls
        if let Some((x, tr)) = split_qualified(&dname) {
            let x = x.trim_start_matches('&').trim_start_matches("'a ").trim_start_matches("mut ").trim_start_matches('(').trim_start_matches("dyn ");
            let generic = x.len() <= 2 || x.chars().next().map(|c| c.is_uppercase()).unwrap_or(false) && !x.contains("::");
            if generic {
                return self.starts_stopped(tr);
            }
            return self.starts_stopped(x);
        }
        self.is_stopped(&dname)
    }
    fn starts_stopped(&self, s: &str) -> bool {
        self.stop.iter().any(|p| s.starts_with(p.as_str()))
    }

    fn dump_instance(&mut self, inst: Instance) {
        let id = iid(&inst);
        if !self.seen_inst.insert(id.clone()) {
            return;
        }
        let name = inst.name();
        let krate = inst.def.krate().name;
        let args = inst.args();
        let a = self.args_json(&args);
        let kind = format!("{:?}", inst.kind);
        let fty = self.ty(inst.ty());
        let mut reason = "";
        let body = if matches!(inst.kind, InstanceKind::Item | InstanceKind::Shim) {
            if self.is_stopped_inst(&inst) { reason = "stop"; None } else {
                let b = inst.body();
                if b.is_none() { reason = "nobody"; }
                b
            }
        } else { reason = "kind"; None };
        match body {
            None => {
                // externals: make drop glue of every type argument available to models
                for g in &args.0 {
                    if let GenericArgKind::Type(t) = g {
                        self.ty(*t);
                    }
                }
                // a stopped consumer of an iterator (collect / extend / from_iter): the model drives the
                // iterator's own `next`, which nothing else references
                if name.contains("FromIterator") || name.contains("::extend") || name.contains("Extend<") {
                    if let Some(next) = self.iter_next {
                        for g in &args.0 {
                            if let GenericArgKind::Type(t) = g {
                                let ts = format!("{}", t);
                                let looks_iter = ["iter::", "Iter", "Drain", "Chunks", "Windows", "Keys<", "Values<", "ValuesMut<", "Union<", "Intersection<",
                                    "Difference<", "Chars<", "Bytes<", "Split", "Lines<", "ops::Range", "RangeInclusive", "Rev<", "Enumerate<"]
                                    .iter().any(|p| ts.contains(p)) && !ts.starts_with('&');
                                if looks_iter {
                                    let ga = GenericArgs(vec![GenericArgKind::Type(*t)]);
                                    if let Ok(i) = Instance::resolve(next, &ga) {
                                        self.inst(i);
                                    }
                                }
                            }
                        }
                    }
                }
                let intr = inst.intrinsic_name();
                self.emit(json!({"k":"ext","id":id,"name":name,"krate":krate,"kind":kind,
                    "args":a,"fty":fty,"reason":reason,"intrinsic":intr,"dname":inst.def.name()}));
            }
            Some(body) => {
                self.nbodies += 1;
                let mut v = BodyVisitor { d: self, locals: body.locals().to_vec() };
                v.visit_body(&body);
                let locals: Vec<usize> = body.locals().iter().map(|l| l.ty.to_index()).collect();
                let dbg: Vec<Value> = body.var_debug_info.iter().filter_map(|d| d.local().map(|l| json!([l, d.name]))).collect();
                let span = body.span.diagnostic();
                let bj = serde_json::to_value(&body.blocks).unwrap();
                // source position of every block's terminator ("file:line"), for replaying schedules under a debugger
                let tspans: Vec<String> = body.blocks.iter().map(|b| {
                    let sp = b.terminator.span;
                    format!("{}:{}", sp.get_filename(), sp.get_lines().start_line)
                }).collect();
                self.emit(json!({"k":"fn","id":id,"name":name,"krate":krate,"kind":kind,"args":a,"fty":fty,
                    "locals":locals,"arg_count":body.arg_locals().len(),"spread_arg":body.spread_arg(),
                    "dbg":dbg,"span":span,"blocks":bj,"tspans":tspans,"dname":inst.def.name()}));
            }
        }
    }

    fn resolve_vcalls(&mut self) {
        // for every virtual call site and every concrete type unsized to the
        // receiver's dyn type, resolve the concrete method
        let vcalls: Vec<(String, (rustc_public::ty::FnDef, GenericArgs, usize))> =
            self.vcalls.iter().map(|(k, v)| (k.clone(), v.clone())).collect();
        let unsize: Vec<(usize, usize)> = self.unsize.iter().copied().collect();
        for (vid, (def, args, recv)) in vcalls {
            for (conc, dynty) in &unsize {
                if *dynty != recv { continue; }
                if !self.vdone.insert((vid.clone(), *conc)) { continue; }
                let ct = Ty::to_val(*conc);
                let mut na = args.clone();
                let mut replaced = false;
                for g in na.0.iter_mut() {
                    if let GenericArgKind::Type(t) = g {
                        if t.to_index() == recv && !replaced { *g = GenericArgKind::Type(ct); replaced = true; }
                    }
                }
                match Instance::resolve(def, &na) {
                    Ok(i) => {
                        let tid = self.inst(i);
                        self.emit(json!({"k":"vt","vcall":vid,"self_ty":conc,"target":tid}));
                    }
                    Err(e) => {
                        self.emit(json!({"k":"vt_err","vcall":vid,"self_ty":conc,"err":format!("{:?}",e)}));
                    }
                }
            }
        }
    }
}

fn find_iterator_next() -> Option<rustc_public::ty::FnDef> {
    for t in rustc_public::all_trait_decls() {
        let n = t.name();
        if n == "std::iter::Iterator" || n == "core::iter::Iterator" || n == "core::iter::traits::iterator::Iterator" {
            for it in t.associated_items() {
                if let rustc_public::ty::AssocKind::Fn { name, .. } = &it.kind {
                    if name == "next" {
                        return Some(rustc_public::ty::FnDef(it.def_id.def_id()));
                    }
                }
            }
        }
    }
    None
}

/// "<X as Y>::rest" -> (X, Y) split at the top-level " as "
fn split_qualified(name: &str) -> Option<(&str, &str)> {
    if !name.starts_with('<') {
        return None;
    }
    let b = name.as_bytes();
    let mut depth = 0i32;
    let mut i = 0;
    let mut as_at = None;
    while i < b.len() {
        match b[i] {
            b'<' => depth += 1,
            b'>' => {
                depth -= 1;
                if depth == 0 {
                    let a = as_at?;
                    return Some((&name[1..a], &name[a + 4..i]));
                }
            }
            b' ' if depth == 1 && as_at.is_none() && name[i..].starts_with(" as ") => as_at = Some(i),
            _ => {}
        }
        i += 1;
    }
    None
}

struct BodyVisitor<'a> {
    d: &'a mut Dumper,
    locals: Vec<rustc_public::mir::LocalDecl>,
}

fn pointee_pair(src: Ty, dst: Ty) -> Option<(Ty, Ty)> {
    // find (concrete, dyn) inside pointer-like src/dst types of an unsizing coercion
    let (sk, dk) = (src.kind(), dst.kind());
    match (sk.rigid(), dk.rigid()) {
        (Some(RigidTy::Ref(_, a, _)), Some(RigidTy::Ref(_, b, _)))
        | (Some(RigidTy::RawPtr(a, _)), Some(RigidTy::RawPtr(b, _)))
        | (Some(RigidTy::Ref(_, a, _)), Some(RigidTy::RawPtr(b, _))) => inner_pair(*a, *b),
        (Some(RigidTy::Adt(_, aa)), Some(RigidTy::Adt(_, ba))) => {
            for (x, y) in aa.0.iter().zip(ba.0.iter()) {
                if let (GenericArgKind::Type(x), GenericArgKind::Type(y)) = (x, y) {
                    if x != y {
                        // either directly (Box<T> -> Box<dyn>) or nested pointer (Pin<Box<T>>)
                        if let Some(p) = inner_pair(*x, *y) { return Some(p); }
                        return pointee_pair(*x, *y);
                    }
                }
            }
            None
        }
        _ => None,
    }
}
fn inner_pair(a: Ty, b: Ty) -> Option<(Ty, Ty)> {
    match b.kind().rigid() {
        Some(RigidTy::Dynamic(..)) => Some((a, b)),
        Some(RigidTy::Adt(..)) => {
            // struct tail unsizing, e.g. ArcInner<T> -> ArcInner<dyn>; compare args
            pointee_pair(a, b)
        }
        _ => None,
    }
}

impl<'a> MirVisitor for BodyVisitor<'a> {
    fn visit_ty(&mut self, ty: &Ty, _: Location) {
        self.d.ty(*ty);
    }
    fn visit_mir_const(&mut self, c: &MirConst, loc: Location) {
        self.d.ty(c.ty());
        match c.kind() {
            ConstantKind::Allocated(a) => { let _ = self.d.allocation(a); }
            ConstantKind::Ty(tc) => { let _ = self.d.tyconst(tc); }
            _ => {}
        }
        self.super_mir_const(c, loc);
    }
    fn visit_rvalue(&mut self, rv: &Rvalue, loc: Location) {
        match rv {
            Rvalue::Cast(CastKind::PointerCoercion(PointerCoercion::Unsize), op, dst) => {
                if let Ok(src) = op.ty(&self.locals) {
                    if let Some((c, d)) = pointee_pair(src, *dst) {
                        let (ci, di) = (self.d.ty(c), self.d.ty(d));
                        self.d.unsize.insert((ci, di));
                    }
                }
            }
            Rvalue::Cast(CastKind::PointerCoercion(PointerCoercion::ClosureFnPointer(_)), op, _) => {
                if let Ok(src) = op.ty(&self.locals) { self.d.ty(src); }
            }
            Rvalue::ThreadLocalRef(item) => {
                if let Ok(s) = StaticDef::try_from(*item) { self.d.static_(s); }
            }
            _ => {}
        }
        self.super_rvalue(rv, loc);
    }
    fn visit_terminator(&mut self, term: &Terminator, loc: Location) {
        match &term.kind {
            TerminatorKind::Drop { place, .. } => {
                if let Ok(t) = place.ty(&self.locals) { self.d.ty(t); }
            }
            TerminatorKind::Call { func, .. } => {
                if let Ok(t) = func.ty(&self.locals) { self.d.ty(t); }
            }
            _ => {}
        }
        self.super_terminator(term, loc);
    }
}

fn main() {
    let mut args: Vec<String> = std::env::args().collect();
    let real = args.remove(1);
    let crate_name = args.iter().position(|a| a == "--crate-name").map(|i| args[i + 1].clone());
    let target = std::env::var("MIRDUMP_CRATE").unwrap_or_default();
    if crate_name.as_deref() != Some(target.as_str()) || std::env::var("MIRDUMP_OUT").is_err() {
        let st = std::process::Command::new(&real).args(&args[1..]).status().unwrap();
        std::process::exit(st.code().unwrap_or(1));
    }
    let outp = std::env::var("MIRDUMP_OUT").unwrap();
    let stop: Vec<String> = std::env::var("MIRDUMP_STOP")
        .ok()
        .and_then(|p| std::fs::read_to_string(p).ok())
        .map(|s| s.lines().map(|l| l.trim().to_string()).filter(|l| !l.is_empty() && !l.starts_with('#')).collect())
        .unwrap_or_default();
    let res = run!(&args, || -> ControlFlow<()> {
        let mut d = Dumper {
            out: std::io::BufWriter::new(std::fs::File::create(&outp).unwrap()),
            stop: stop.clone(),
            seen_inst: HashSet::new(), q: VecDeque::new(), seen_ty: HashSet::new(), tyq: VecDeque::new(),
            seen_alloc: HashSet::new(), allocq: VecDeque::new(), seen_static: HashSet::new(),
            unsize: HashSet::new(), vcalls: HashMap::new(), vdone: HashSet::new(), nbodies: 0, next: 0, iter_next: find_iterator_next(),
        };
        let _ = d.next;
        for item in rustc_public::all_local_items() {
            if let Ok(inst) = Instance::try_from(item) {
                if matches!(item.kind(), rustc_public::ItemKind::Fn) {
                    let id = d.inst(inst);
                    d.emit(json!({"k":"root","id":id,"name":inst.name()}));
                }
            }
        }
        loop {
            let mut progress = false;
            while let Some(i) = d.q.pop_front() { d.dump_instance(i); progress = true; }
            while let Some(t) = d.tyq.pop_front() { d.dump_ty(t); progress = true; }
            while let Some(a) = d.allocq.pop_front() { d.dump_alloc(a); progress = true; }
            d.resolve_vcalls();
            if !progress && d.q.is_empty() && d.tyq.is_empty() && d.allocq.is_empty() { break; }
        }
        d.out.flush().unwrap();
        eprintln!("mirdump: {} bodies, {} instances, {} types", d.nbodies, d.seen_inst.len(), d.seen_ty.len());
        ControlFlow::Continue(())
    });
    match res {
        Ok(_) | Err(rustc_public::CompilerError::Skipped) | Err(rustc_public::CompilerError::Interrupted(_)) => {}
        Err(e) => { eprintln!("mirdump: compiler error {:?}", e); std::process::exit(1); }
    }
}
