#!/bin/bash
# usage: seedcheck.sh <worktree> <seed-id> <property>  -- confirms a seeded change in its scratch worktree
# (suite still 103 passing, demo fails with / passes without), stores it under /verif/seeded/<seed-id>/
wt=$1; sid=$2; prop=$3
cd $wt || exit 1
export CARGO_TARGET_DIR=$wt/target CARGO_NET_OFFLINE=true
test -f _seed/patch.diff || { echo "no patch"; exit 1; }
# make sure the patch is applied
git apply --check -R _seed/patch.diff 2>/dev/null || git apply _seed/patch.diff
demo=sentinel-core/tests/seed_demo.rs
mv $demo /tmp/seed_demo_$sid.rs 2>/dev/null
suite=$(timeout 900 cargo test --workspace --offline 2>&1 | grep "^test result" | head -1)
mv /tmp/seed_demo_$sid.rs $demo
with=$(timeout 900 cargo test --offline -p sentinel-core --features verif_hooks --test seed_demo 2>&1 | grep "^test result" | head -1)
git apply -R _seed/patch.diff
without=$(timeout 900 cargo test --offline -p sentinel-core --features verif_hooks --test seed_demo 2>&1 | grep "^test result" | head -1)
git apply _seed/patch.diff
echo "suite-with-change: $suite"; echo "demo-with-change: $with"; echo "demo-without: $without"
mkdir -p /verif/seeded/$sid
cp _seed/patch.diff /verif/seeded/$sid/patch.diff; cp $demo /verif/seeded/$sid/demo.rs; cp _seed/meta.json /verif/seeded/$sid/agent_meta.json 2>/dev/null
printf '%s\n%s\n%s\n' "suite-with-change: $suite" "demo-with-change: $with" "demo-without: $without" > /verif/seeded/$sid/confirm.txt
